/-
  C03 — Advantages and returns equal the GAE definition, cut at episode ends.

  Theorems about `Lerax.Gae.gae` (the model of `RolloutBuffer.compute_returns_and_advantages`)
  for every rollout length, every reward/value sequence over an arbitrary commutative ring
  (hence ℝ), every done pattern, every γ and λ (not only [0,1]) and every bootstrap value.
-/
import LeraxModel.Gae
import Mathlib.Tactic.Ring
import Mathlib.Algebra.BigOperators.Group.Finset.Basic
import Mathlib.Algebra.BigOperators.Ring.Finset

namespace Lerax.C03
open Lerax.Gae

set_option linter.unusedSectionVars false

variable {α : Type} [CommRing α]

/-! ### helper lemmas (structure of the reverse scan) -/

theorem scanRev_carry (xs : List (α × α)) (c : α) :
    (scanRev xs c).2 = (scanRev xs c).1.headD c := by
  cases xs with
  | nil => rfl
  | cons x xs => rfl

theorem scanRev_length (xs : List (α × α)) (c : α) : (scanRev xs c).1.length = xs.length := by
  induction xs with
  | nil => rfl
  | cons x xs ih => simp [scanRev, ih]

theorem scanRev_cons (δ k : α) (xs : List (α × α)) (c : α) :
    (scanRev ((δ, k) :: xs) c).1 = (δ + k * (scanRev xs c).1.headD c) :: (scanRev xs c).1 := by
  simp [scanRev, scanRev_carry]

/-- `next_values` of a non-empty value list: the first entry is `V_{1}` (or the bootstrap). -/
theorem nextValues_cons (v w : α) (ws : List α) (last : α) :
    nextValues (v :: w :: ws) last = w :: nextValues (w :: ws) last := by
  simp [nextValues]

theorem zipWith3_nil_right (f : α → α → α → α) (as bs : List α) : zipWith3 f as bs [] = [] := by
  cases as <;> cases bs <;> rfl

/-! ### structural characterisation: one step of GAE -/

/-- The advantage of the first step, given the estimates of the rest of the rollout. -/
def headAdv (γ lam r v : α) (d : Bool) (vNext aNext : α) : α :=
  (r + γ * vNext * (1 - ofBool d) - v) + γ * lam * (1 - ofBool d) * aNext

theorem gae_nil (γ lam last : α) (values : List α) (dones : List Bool) :
    (gae γ lam [] values dones last).advantages = [] := by
  simp [gae, deltas, zipWith3, scanRev]

/-- **GAE recurrence, structural form.**  The estimates of a rollout `(r,v,d) :: rest` are the
    estimates of `rest` (same bootstrap value) with one more entry in front:
    `A_0 = δ_0 + γλ(1−d_0)·A_1`, `δ_0 = r_0 + γ(1−d_0)·V_1 − V_0`, `ret_0 = A_0 + V_0`,
    where `V_1` is the next stored value or the bootstrap value at the end of the rollout and
    `A_1 = 0` past the end. -/
theorem gae_cons (γ lam r v : α) (d : Bool) (rs vs : List α) (ds : List Bool) (last : α) :
    (gae γ lam (r :: rs) (v :: vs) (d :: ds) last).advantages =
      headAdv γ lam r v d ((vs ++ [last]).headD last)
        ((gae γ lam rs vs ds last).advantages.headD 0) :: (gae γ lam rs vs ds last).advantages ∧
    (gae γ lam (r :: rs) (v :: vs) (d :: ds) last).returns =
      (headAdv γ lam r v d ((vs ++ [last]).headD last)
        ((gae γ lam rs vs ds last).advantages.headD 0) + v) :: (gae γ lam rs vs ds last).returns := by
  cases vs with
  | nil =>
      simp [gae, nextValues, nextNonTerminals, deltas, discounts, zipWith3, zipWith3_nil_right,
        scanRev, headAdv]
  | cons w ws =>
      simp only [gae, nextValues_cons, nextNonTerminals, List.map_cons, deltas, discounts, zipWith3,
        List.zipWith_cons_cons, List.zip_cons_cons, scanRev_cons, headAdv, List.cons_append,
        List.headD_cons, and_self]

/-! ### index form of the recurrence (the statement of the property) -/

/-- `δ_t` and the recurrence, read off by index with `A_T = 0`, `V_T = last`. -/
def RecurrenceAt (γ lam : α) (rewards values : List α) (dones : List Bool) (last : α)
    (adv ret : List α) (t : Nat) : Prop :=
  let r := rewards.getD t 0
  let v := values.getD t 0
  let d := dones.getD t false
  let vNext := (values ++ [last]).getD (t + 1) 0
  let aNext := adv.getD (t + 1) 0
  let nnt : α := 1 - ofBool d
  let delta := r + γ * vNext * nnt - v
  adv.getD t 0 = delta + γ * lam * nnt * aNext ∧ ret.getD t 0 = adv.getD t 0 + v

theorem gae_lengths (γ lam : α) (rewards values : List α) (dones : List Bool) (last : α)
    (hv : values.length = rewards.length) (hd : dones.length = rewards.length) :
    (gae γ lam rewards values dones last).advantages.length = rewards.length ∧
    (gae γ lam rewards values dones last).returns.length = rewards.length := by
  induction rewards generalizing values dones with
  | nil =>
      cases values <;> cases dones <;> simp_all [gae, deltas, zipWith3, scanRev]
  | cons r rs ih =>
      cases values with
      | nil => simp at hv
      | cons v vs =>
        cases dones with
        | nil => simp at hd
        | cons d ds =>
          have h := gae_cons γ lam r v d rs vs ds last
          have ih' := ih vs ds (by simpa using hv) (by simpa using hd)
          rw [h.1, h.2]
          simp [ih'.1, ih'.2]

/-- **C03, main statement.**  For every rollout (any length `T`, any rewards, values, done
    pattern, γ, λ, bootstrap value) and every `t < T`:
    `A_t = δ_t + γλ(1−d_t)A_{t+1}`, `δ_t = r_t + γ(1−d_t)V_{t+1} − V_t`, `A_T = 0`, `V_T = last`,
    `ret_t = A_t + V_t`. -/
theorem gae_recurrence (γ lam : α) (rewards values : List α) (dones : List Bool) (last : α)
    (hv : values.length = rewards.length) (hd : dones.length = rewards.length)
    (t : Nat) (ht : t < rewards.length) :
    RecurrenceAt γ lam rewards values dones last
      (gae γ lam rewards values dones last).advantages
      (gae γ lam rewards values dones last).returns t := by
  induction rewards generalizing values dones t with
  | nil => simp at ht
  | cons r rs ih =>
      cases values with
      | nil => simp at hv
      | cons v vs =>
        cases dones with
        | nil => simp at hd
        | cons d ds =>
          have h := gae_cons γ lam r v d rs vs ds last
          have hvs : vs.length = rs.length := by simpa using hv
          have hds : ds.length = rs.length := by simpa using hd
          cases t with
          | zero =>
              unfold RecurrenceAt
              rw [h.1, h.2]
              simp only [List.getD_cons_zero, List.cons_append, List.getD_cons_succ, headAdv]
              have e1 : (vs ++ [last]).headD last = (vs ++ [last]).getD 0 0 := by
                cases vs <;> simp
              have e2 : (gae γ lam rs vs ds last).advantages.headD 0
                  = (gae γ lam rs vs ds last).advantages.getD 0 0 := by
                cases (gae γ lam rs vs ds last).advantages <;> simp
              rw [e1, e2]
              exact ⟨rfl, trivial⟩
          | succ t =>
              have ht' : t < rs.length := by simpa using ht
              have := ih vs ds hvs hds t ht'
              unfold RecurrenceAt at this ⊢
              rw [h.1, h.2]
              simpa only [List.getD_cons_succ, List.cons_append] using this

/-- The `Bool` checker `Lerax.Gae.phi` that the driver evaluates on implementation outputs is,
    with exact equality, always true of the model. -/
theorem phi_gae [DecidableEq α] (γ lam : α) (rewards values : List α) (dones : List Bool)
    (last : α) (hv : values.length = rewards.length) (hd : dones.length = rewards.length) :
    phi (fun a b => decide (a = b)) γ lam rewards values dones last
      (gae γ lam rewards values dones last).advantages
      (gae γ lam rewards values dones last).returns = true := by
  have hl := gae_lengths γ lam rewards values dones last hv hd
  unfold phi
  simp only [Bool.and_eq_true, beq_iff_eq, List.all_eq_true, List.mem_range]
  refine ⟨⟨hl.1, hl.2⟩, ?_⟩
  intro t ht
  have h := gae_recurrence γ lam rewards values dones last hv hd t ht
  unfold RecurrenceAt at h
  unfold recurrenceAt
  simp only [Bool.and_eq_true, decide_eq_true_eq]
  exact h

/-! ### closed form -/

/-- `Σ_k (Π_{j<k} c_j) · δ_k` over a suffix `[(δ_0,c_0), (δ_1,c_1), …]`. -/
def closedForm (xs : List (α × α)) : α :=
  ∑ k ∈ Finset.range xs.length, ((xs.map Prod.snd).take k).prod * ((xs.map Prod.fst).getD k 0)

theorem closedForm_cons (δ c : α) (xs : List (α × α)) :
    closedForm ((δ, c) :: xs) = δ + c * closedForm xs := by
  unfold closedForm
  rw [List.length_cons, Finset.sum_range_succ', Finset.mul_sum]
  simp only [List.map_cons, List.take_zero, List.prod_nil, List.getD_cons_zero, one_mul,
    List.take_succ_cons, List.prod_cons, List.getD_cons_succ]
  rw [add_comm]
  congr 1
  apply Finset.sum_congr rfl
  intro k _
  ring

theorem scanRev_head_closedForm (xs : List (α × α)) :
    (scanRev xs 0).1.headD 0 = closedForm xs := by
  induction xs with
  | nil => simp [scanRev, closedForm]
  | cons x xs ih =>
      obtain ⟨δ, c⟩ := x
      rw [scanRev_cons, closedForm_cons, ← ih]
      rfl

/-- **Closed form.**  The first advantage of a rollout is
    `Σ_{k} (Π_{j<k} γλ(1−d_j)) · δ_k`; applied to every suffix of the rollout (by `gae_cons`
    the tail of the estimates is the estimate of the tail) this is
    `A_t = Σ_{k≥t} (γλ)^{k−t} Π_{t≤j<k}(1−d_j) δ_k`. -/
theorem gae_closed_form (γ lam : α) (rewards values : List α) (dones : List Bool) (last : α) :
    (gae γ lam rewards values dones last).advantages.headD 0 =
      closedForm ((deltas γ rewards values (nextValues values last) (nextNonTerminals dones)).zip
        (discounts γ lam (nextNonTerminals dones))) := by
  simp only [gae]
  exact scanRev_head_closedForm _

/-! ### λ = 0 and λ = 1 -/

/-- **λ = 0: one-step TD errors.** -/
theorem gae_lambda_zero (γ : α) (rewards values : List α) (dones : List Bool) (last : α)
    (hv : values.length = rewards.length) (hd : dones.length = rewards.length)
    (t : Nat) (ht : t < rewards.length) :
    (gae γ 0 rewards values dones last).advantages.getD t 0 =
      rewards.getD t 0 + γ * (values ++ [last]).getD (t + 1) 0 * (1 - ofBool (dones.getD t false))
        - values.getD t 0 := by
  have h := gae_recurrence γ 0 rewards values dones last hv hd t ht
  unfold RecurrenceAt at h
  rw [h.1]
  ring

/-- discounted reward sum up to and including the first done step; `γ^k · last` is added when
    the rollout ends without a done -/
def mcReturn (γ : α) : List α → List Bool → α → α
  | r :: rs, d :: ds, last => if d then r else r + γ * mcReturn γ rs ds last
  | _, _, last => last

/-- **λ = 1: discounted Monte-Carlo returns**, cut at the first episode end. -/
theorem gae_lambda_one (γ : α) (rewards values : List α) (dones : List Bool) (last : α)
    (hv : values.length = rewards.length) (hd : dones.length = rewards.length)
    (hne : rewards ≠ []) :
    (gae γ 1 rewards values dones last).returns.headD 0 = mcReturn γ rewards dones last := by
  induction rewards generalizing values dones with
  | nil => exact absurd rfl hne
  | cons r rs ih =>
      cases values with
      | nil => simp at hv
      | cons v vs =>
        cases dones with
        | nil => simp at hd
        | cons d ds =>
          have h := gae_cons γ 1 r v d rs vs ds last
          have hvs : vs.length = rs.length := by simpa using hv
          have hds : ds.length = rs.length := by simpa using hd
          rw [h.2]
          simp only [List.headD_cons, mcReturn, headAdv]
          cases rs with
          | nil =>
              cases vs with
              | cons _ _ => simp at hvs
              | nil =>
                cases ds with
                | cons _ _ => simp at hds
                | nil =>
                  have hn := gae_nil γ 1 last ([] : List α) ([] : List Bool)
                  rw [hn]
                  cases d <;> simp [ofBool, mcReturn]
          | cons r' rs' =>
              have ih' := ih vs ds hvs hds (by simp)
              cases vs with
              | nil => simp at hvs
              | cons v' vs' =>
                cases ds with
                | nil => simp at hds
                | cons d' ds' =>
                  have h' := gae_cons γ 1 r' v' d' rs' vs' ds' last
                  rw [h'.2] at ih'
                  rw [h'.1]
                  simp only [List.headD_cons, List.cons_append] at ih' ⊢
                  rw [← ih']
                  cases d <;> simp [ofBool]; ring

/-! ### cut at episode ends -/

/-- **Nothing recorded after an episode end influences the estimates before it.**  Two
    rollouts that agree up to and including a done step `t` (and are otherwise arbitrary: other
    rewards, values, done flags afterwards, other bootstrap value, even other lengths) have the
    same advantages and returns at every step `s ≤ t`. -/
theorem gae_cut (γ lam : α) (r r' v v' : List α) (d d' : List Bool) (last last' : α)
    (hv : v.length = r.length) (hd : d.length = r.length)
    (hv' : v'.length = r'.length) (hd' : d'.length = r'.length)
    (t : Nat) (ht : t < r.length) (ht' : t < r'.length)
    (hr : r.take (t + 1) = r'.take (t + 1)) (hvv : v.take (t + 1) = v'.take (t + 1))
    (hdd : d.take (t + 1) = d'.take (t + 1)) (hdone : d.getD t false = true) :
    (gae γ lam r v d last).advantages.take (t + 1) = (gae γ lam r' v' d' last').advantages.take (t + 1) ∧
    (gae γ lam r v d last).returns.take (t + 1) = (gae γ lam r' v' d' last').returns.take (t + 1) := by
  induction t generalizing r r' v v' d d' with
  | zero =>
      match r, r', v, v', d, d' with
      | r0 :: rs, r0' :: rs', v0 :: vs, v0' :: vs', d0 :: ds, d0' :: ds' =>
        have h := gae_cons γ lam r0 v0 d0 rs vs ds last
        have h' := gae_cons γ lam r0' v0' d0' rs' vs' ds' last'
        simp only [List.take_succ_cons, List.take_zero, List.cons.injEq, and_true] at hr hvv hdd
        simp only [List.getD_cons_zero] at hdone
        subst hr hvv hdd hdone
        rw [h.1, h.2, h'.1, h'.2]
        simp [headAdv, ofBool]
      | [], _, _, _, _, _ => simp at ht
      | _ :: _, [], _, _, _, _ => simp at ht'
      | _ :: _, _ :: _, [], _, _, _ => simp at hv
      | _ :: _, _ :: _, _ :: _, [], _, _ => simp at hv'
      | _ :: _, _ :: _, _ :: _, _ :: _, [], _ => simp at hd
      | _ :: _, _ :: _, _ :: _, _ :: _, _ :: _, [] => simp at hd'
  | succ t ih =>
      match r, r', v, v', d, d' with
      | r0 :: rs, r0' :: rs', v0 :: vs, v0' :: vs', d0 :: ds, d0' :: ds' =>
        have h := gae_cons γ lam r0 v0 d0 rs vs ds last
        have h' := gae_cons γ lam r0' v0' d0' rs' vs' ds' last'
        simp only [List.take_succ_cons, List.cons.injEq] at hr hvv hdd
        obtain ⟨hr0, hrs⟩ := hr
        obtain ⟨hv0, hvs⟩ := hvv
        obtain ⟨hd0, hds⟩ := hdd
        subst hr0 hv0 hd0
        have htl := ih rs rs' vs vs' ds ds' (by simpa using hv) (by simpa using hd)
          (by simpa using hv') (by simpa using hd') (by simpa using ht) (by simpa using ht')
          hrs hvs hds (by simpa using hdone)
        rw [h.1, h.2, h'.1, h'.2]
        simp only [List.take_succ_cons, List.cons.injEq]
        -- the head entry reads V_1 and A_1 of the tail, both inside the agreed prefix
        have hvhead : (vs ++ [last]).headD last = (vs' ++ [last']).headD last' := by
          match vs, vs' with
          | a :: _, b :: _ =>
              simp only [List.take_succ_cons, List.cons.injEq] at hvs
              simp [hvs.1]
          | [], _ => simp only [List.length_cons, List.length_nil] at hv ht; omega
          | _ :: _, [] => simp only [List.length_cons, List.length_nil] at hv' ht'; omega
        have hahead : (gae γ lam rs vs ds last).advantages.headD 0
            = (gae γ lam rs' vs' ds' last').advantages.headD 0 := by
          have := htl.1
          generalize (gae γ lam rs vs ds last).advantages = A at this ⊢
          generalize (gae γ lam rs' vs' ds' last').advantages = B at this ⊢
          match A, B with
          | [], [] => rfl
          | a :: _, b :: _ =>
              simp only [List.take_succ_cons, List.cons.injEq] at this
              simp [this.1]
          | [], _ :: _ => simp at this
          | _ :: _, [] => simp at this
        rw [hvhead, hahead]
        exact ⟨⟨rfl, htl.1⟩, ⟨rfl, htl.2⟩⟩
      | [], _, _, _, _, _ => simp at ht
      | _ :: _, [], _, _, _, _ => simp at ht'
      | _ :: _, _ :: _, [], _, _, _ => simp at hv
      | _ :: _, _ :: _, _ :: _, [], _, _ => simp at hv'
      | _ :: _, _ :: _, _ :: _, _ :: _, [], _ => simp at hd
      | _ :: _, _ :: _, _ :: _, _ :: _, _ :: _, [] => simp at hd'

/-! ### parallel environments -/

/-- **Each environment's stream is estimated on its own**: the estimates of environment `i`
    are `gae` of environment `i`'s data, whatever the other environments hold. -/
theorem gae_batch_independent (γ lam : α) (envs envs' : List (List α × List α × List Bool × α))
    (i : Nat) (h : envs[i]? = envs'[i]?) :
    ((gaeBatch γ lam envs)[i]?).map (fun o => (o.advantages, o.returns)) =
    ((gaeBatch γ lam envs')[i]?).map (fun o => (o.advantages, o.returns)) := by
  simp [gaeBatch, List.getElem?_map, h]

/-! ### non-vacuity: a concrete rollout with an interior episode end -/

example : (gae (1/2 : ℚ) (1/2) [1, 2, 3] [1, 0, 2] [false, true, false] 4).advantages
    = [1/2, 2, 3] := by
  simp [gae, nextValues, nextNonTerminals, deltas, discounts, zipWith3, scanRev, ofBool]
  norm_num

end Lerax.C03
