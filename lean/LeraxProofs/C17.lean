/-
  C17 — Built-in environments realise their Gymnasium reference MDPs.

  * `LeraxProofs/C17Classic.lean`: CartPole, MountainCar, ContinuousMountainCar, Acrobot —
    `*_field_eq`, `*_limits_eq`, `*_reward_eq`, `*_terminal_eq`, `*_init_range_eq`,
    `cartpole_euler_step_eq`; C02's `classic_obs_in_space`, `cartpole_obs_in_space_partial`.
  * `LeraxProofs/C17Real.lean`: the classic-control theorems over ℝ with `Real.sin`, `Real.cos`,
    `Real.pi` and a floor-based `%` (hypotheses discharged from Mathlib).
  * `LeraxProofs/C17Mujoco.lean`: the 11 MuJoCo environments — `<env>_obs_eq`,
    `<env>_reward_eq`, `<env>_terminated_eq`, `mujoco_assembly_eq`, `obs_layout_length`,
    `kin_coherent`.

  Outside the theorems (differential-only, see the registry's `level_note`): the physics itself
  (MJX `step` vs MuJoCo `mj_step`) and the ODE solvers (diffrax).
-/
import LeraxProofs.C17Classic
import LeraxProofs.C17Mujoco
import LeraxProofs.C17Real
