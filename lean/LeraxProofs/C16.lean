/-
  C16 — Masked actions are never chosen; key-less policies act greedily.

  Theorems about the mask functions of `LeraxModel/Dist.lean` and the selection logic of
  `LeraxModel/Policy.lean`, for every number of actions, every (extended) logit vector or valid
  probability vector, every mask that leaves a finite logit, every noise vector / uniform draw,
  every ε.  Numbers are an arbitrary linearly ordered field with `exp`/`log` satisfying `ExpLog`
  (discharged for ℝ by `C15.expLog_real`).
-/
import LeraxModel.Dist
import LeraxModel.Policy
import LeraxProofs.C15

namespace Lerax.C16
open Lerax.Dist Lerax.Policy Lerax.C15

set_option linter.unusedSectionVars false
set_option linter.unusedVariables false

variable {α : Type} [Field α] [LinearOrder α] [IsStrictOrderedRing α]

/-! ## `where(mask, logits, -inf)` -/

theorem maskLogits_get (m : List Bool) (L : List (Option α)) (i : Nat) :
    (maskLogits m L)[i]? =
      match m[i]?, L[i]? with
      | some b, some l => some (if b then l else none)
      | _, _ => none := by
  induction m generalizing L i with
  | nil => simp [maskLogits]
  | cons b bs ih =>
      cases L with
      | nil => cases i <;> simp [maskLogits]
      | cons l ls =>
          cases i with
          | zero => simp [maskLogits]
          | succ i => simp [maskLogits, ih ls i]

theorem maskLogits_length (m : List Bool) (L : List (Option α)) :
    (maskLogits m L).length = min m.length L.length := by
  induction m generalizing L with
  | nil => simp [maskLogits]
  | cons b bs ih =>
      cases L with
      | nil => simp [maskLogits]
      | cons l ls => simp [maskLogits, ih ls]

/-- a finite entry of the masked logits sits at an allowed index -/
theorem maskLogits_finite_allowed (m : List Bool) (L : List (Option α)) (i : Nat) (x : α)
    (h : (maskLogits m L)[i]? = some (some x)) : m[i]? = some true ∧ L[i]? = some (some x) := by
  rw [maskLogits_get] at h
  cases hm : m[i]? with
  | none => simp [hm] at h
  | some b =>
      cases hl : L[i]? with
      | none => simp [hm, hl] at h
      | some l =>
          simp only [hm, hl, Option.some.injEq] at h
          cases b with
          | false => simp at h
          | true => simp_all

/-- when every logit is finite, one allowed in-range action makes the masked logits have a
    finite entry ("a mask with at least one allowed action") -/
theorem hasFinite_mask_of_allowed (m : List Bool) (q : List α) (i : Nat) (hi : i < q.length)
    (hm : m[i]? = some true) : HasFinite (maskLogits m (q.map some)) := by
  rw [hasFinite_iff_get]
  refine ⟨i, q[i], ?_⟩
  rw [maskLogits_get, hm]
  simp [hi]

theorem map_sub_get (L : List (Option α)) (z : α) (i : Nat) :
    (L.map (fun x => x.map (· - z)))[i]? = (L[i]?).map (fun x => x.map (· - z)) := by
  simp

/-- an index whose log-probability under the masked law is finite is allowed by the mask -/
theorem logSoftmax_finite_allowed {exp log : α → α} (m : List Bool) (L : List (Option α))
    (i : Nat) (x : α) (h : (logSoftmax exp log (maskLogits m L))[i]? = some (some x)) :
    m[i]? = some true := by
  unfold logSoftmax at h
  simp only [List.getElem?_map] at h
  cases hml : (maskLogits m L)[i]? with
  | none => simp [hml] at h
  | some l =>
      cases l with
      | none => simp [hml] at h
      | some y => exact (maskLogits_finite_allowed m L i y hml).1

section masked
variable {exp log : α → α} (E : ExpLog exp log)
include E

/-- the masked law is in normal form as soon as one allowed logit is finite -/
theorem mask_normal (c : Cat α) (m : List Bool) (hf : HasFinite (maskLogits m (c.getLogits log))) :
    Cat.Normal exp (c.mask exp log m) :=
  ofLogits_normal E _ hf

omit E in
theorem mask_getLogits (c : Cat α) (m : List Bool) :
    (c.mask exp log m).getLogits log = logSoftmax exp log (maskLogits m (c.getLogits log)) := rfl

/-- **a masked action has probability zero** (and log-probability `-∞`) -/
theorem masked_prob_zero (c : Cat α) (m : List Bool)
    (hf : HasFinite (maskLogits m (c.getLogits log))) (v : Nat) (hv : m.getD v false = false) :
    (c.mask exp log m).prob exp (v : Int) = 0 ∧ (c.mask exp log m).logProb log (v : Int) = none := by
  have hlp : (c.mask exp log m).logProb log (v : Int) = none := by
    rw [logProb_nat, mask_getLogits, List.getD_eq_getElem?_getD]
    cases hg : (logSoftmax exp log (maskLogits m (c.getLogits log)))[v]? with
    | none => rfl
    | some l =>
        cases l with
        | none => rfl
        | some x =>
            have := logSoftmax_finite_allowed m _ v x hg
            rw [List.getD_eq_getElem?_getD, this] at hv
            simp at hv
  exact ⟨prob_zero_of_logprob_none E _ (mask_normal E c m hf) _ hlp, hlp⟩

omit E in
theorem maskLogits_map_eexp (m : List Bool) (L : List (Option α)) :
    (maskLogits m L).map (eexp exp)
      = List.zipWith (fun (b : Bool) p => if b then p else 0) m (L.map (eexp exp)) := by
  induction m generalizing L with
  | nil => simp [maskLogits]
  | cons b bs ih =>
      cases L with
      | nil => simp [maskLogits]
      | cons l ls => cases b <;> simp [maskLogits, ih ls, eexp]

omit E in
theorem maskLogits_map_div (m : List Bool) (L : List (Option α)) (Z : α) :
    (maskLogits m L).map (fun x => eexp exp x / Z)
      = List.zipWith (fun (b : Bool) p => if b then p / Z else 0) m (L.map (eexp exp)) := by
  induction m generalizing L with
  | nil => simp [maskLogits]
  | cons b bs ih =>
      cases L with
      | nil => simp [maskLogits]
      | cons l ls =>
          simp only [maskLogits, List.map_cons, List.zipWith_cons_cons, ih ls]
          cases b <;> simp [eexp]

/-- the probability vector of a law in normal form is `exp` of its logits -/
theorem getProbs_eq_map (c : Cat α) (hc : Cat.Normal exp c) :
    c.getProbs exp = (c.getLogits log).map (eexp exp) := by
  apply List.ext_getElem
  · rw [length_getProbs E, List.length_map, length_getLogits]
  · intro i h1 h2
    have := getProbs_getD E c hc i
    rw [List.getD_eq_getElem?_getD, List.getD_eq_getElem?_getD, List.getElem?_eq_getElem h1] at this
    simp only [Option.getD_some] at this
    rw [this, List.getElem_map]
    congr 1
    rw [List.length_map] at h2
    rw [List.getElem?_eq_getElem h2]; rfl

/-- **the remaining probabilities are renormalised proportionally**: the masked probability
    vector is `p_i / Σ_{j allowed} p_j` on allowed entries and `0` on masked ones, `p` being the
    probabilities of the unmasked law -/
theorem masked_renormalised (c : Cat α) (hc : Cat.Normal exp c) (m : List Bool)
    (hf : HasFinite (maskLogits m (c.getLogits log))) :
    (c.mask exp log m).getProbs exp =
      List.zipWith (fun (b : Bool) p =>
          if b then p / (List.zipWith (fun (b : Bool) p => if b then p else 0) m (c.getProbs exp)).sum
          else 0)
        m (c.getProbs exp) := by
  have h1 : (c.mask exp log m).getProbs exp = softmax exp (maskLogits m (c.getLogits log)) :=
    softmax_logSoftmax E _
  rw [h1, getProbs_eq_map E c hc]
  unfold softmax sumExp
  simp only []
  rw [maskLogits_map_eexp, maskLogits_map_div]

end masked

section chosen
variable {exp log : α → α}

/-- **the mode of a masked law is an allowed action** -/
theorem masked_mode_allowed (c : Cat α) (m : List Bool)
    (hf : HasFinite (maskLogits m (c.getLogits log))) :
    (c.mask exp log m).mode < m.length ∧ m.getD (c.mask exp log m).mode false = true := by
  have hf' : HasFinite (logSoftmax exp log (maskLogits m (c.getLogits log))) := by
    obtain ⟨x, hx⟩ := hf
    exact ⟨x - log (sumExp exp (maskLogits m (c.getLogits log))),
      List.mem_map.mpr ⟨some x, hx, rfl⟩⟩
  obtain ⟨_, x, hx⟩ := argmax_elt_finite _ hf'
  have hm := logSoftmax_finite_allowed m _ _ x hx
  have hlt : (c.mask exp log m).mode < m.length := by
    by_contra hc
    have : m[(c.mask exp log m).mode]? = none := List.getElem?_eq_none (by omega)
    simp only [Cat.mask, Cat.ofLogits, Cat.mode] at this
    rw [this] at hm
    cases hm
  refine ⟨hlt, ?_⟩
  rw [List.getD_eq_getElem?_getD]
  simp only [Cat.mask, Cat.ofLogits, Cat.mode]
  rw [hm]; rfl

/-- **a sample of a masked law is an allowed action, for every noise vector** -/
theorem masked_sample_allowed (c : Cat α) (m : List Bool)
    (hf : HasFinite (maskLogits m (c.getLogits log))) (noise : List α) :
    (c.mask exp log m).sample log noise < m.length ∧
      m.getD ((c.mask exp log m).sample log noise) false = true := by
  have hf' : HasFinite ((c.mask exp log m).getLogits log) := by
    obtain ⟨x, hx⟩ := hf
    exact ⟨x - log (sumExp exp (maskLogits m (c.getLogits log))),
      List.mem_map.mpr ⟨some x, hx, rfl⟩⟩
  obtain ⟨_, x, hx⟩ := sample_in_support_of_finite (c.mask exp log m) hf' noise
  rw [logProb_nat, mask_getLogits, List.getD_eq_getElem?_getD] at hx
  cases hg : (logSoftmax exp log (maskLogits m (c.getLogits log)))[(c.mask exp log m).sample log noise]? with
  | none => rw [hg] at hx; cases hx
  | some l =>
      rw [hg] at hx
      simp only [Option.getD_some] at hx
      subst hx
      have hm := logSoftmax_finite_allowed m _ _ x hg
      have hlt : (c.mask exp log m).sample log noise < m.length := by
        by_contra hc
        have : m[(c.mask exp log m).sample log noise]? = none := List.getElem?_eq_none (by omega)
        rw [this] at hm
        cases hm
      exact ⟨hlt, by rw [List.getD_eq_getElem?_getD, hm]; rfl⟩

/-! ## Bernoulli masks -/

/-- **a masked bit is never set**: its probability of `1` is zero, the mode is `0` and every
    sample (any uniform draw `u ≥ 0`) is `0` -/
theorem bernoulli_masked_bit_false (b : Bern α) :
    (b.mask log false).prob exp true = 0 ∧ (b.mask log false).mode exp = false ∧
      ∀ u : α, 0 ≤ u → (b.mask log false).sample exp u = false := by
  refine ⟨by simp [Bern.mask, Bern.prob, Bern.p1], ?_, ?_⟩
  · simp only [Bern.mask, Bern.mode, Bern.p1, Bool.false_eq_true, if_false, decide_eq_false_iff_not,
      not_lt]
    unfold half
    positivity
  · intro u hu
    simp [Bern.mask, Bern.sample, Bern.p1, hu]

/-- an unmasked bit of a logit-form law keeps its law -/
theorem bernoulli_unmasked_bit (l : Option α) : (Bern.ofLogit l).mask log true = Bern.ofLogit l := rfl

/-- vector form: wherever the mask is `false` the mode bit is `false` (for samples see
    `ac_multibinary_sample_allowed`) -/
theorem bernoulli_vector_mode_masked (bs : List (Bern α)) (m : List Bool) (h : m.length = bs.length) :
    allZip (fun (b : Bool) (a : Bool) => !b || a) ((maskBits log bs m).map (Bern.mode exp)) m = true := by
  induction bs generalizing m with
  | nil => cases m <;> simp_all [maskBits, allZip]
  | cons b bs ih =>
      cases m with
      | nil => simp at h
      | cons a as =>
          simp only [maskBits, List.map_cons, allZip, ih as (by simpa using h), Bool.and_true]
          cases a
          · rw [(bernoulli_masked_bit_false (exp := exp) (log := log) b).2.1]; rfl
          · simp

/-! ## multi-categorical masks act component-wise -/

theorem length_getLogits' (c : Cat α) : (c.getLogits log).length = c.n := length_getLogits c

/-- **the mask of a product law is the product of the masked components** (sequence form),
    whenever the mask pieces have the components' sizes -/
theorem multicat_mask_componentwise (mc : MultiCat α) (ms : List (List Bool))
    (hl : ms.length = mc.length) (hs : ∀ p ∈ mc.zip ms, p.2.length = p.1.n) :
    mc.maskSeq exp log ms = List.zipWith (fun c m => c.mask exp log m) mc ms := by
  unfold MultiCat.maskSeq
  have hd : mc.dims = (List.zipWith (fun c m => maskLogits m (c.getLogits log)) mc ms).map List.length := by
    unfold MultiCat.dims
    induction mc generalizing ms with
    | nil => simp
    | cons c cs ih =>
        cases ms with
        | nil => simp at hl
        | cons m ms =>
            have h0 := hs (c, m) (by simp)
            simp only at h0
            simp only [List.map_cons, List.zipWith_cons_cons, maskLogits_length, length_getLogits,
              h0, Nat.min_self, List.cons.injEq, true_and]
            exact ih ms (by simpa using hl) (fun p hp => hs p (by
              simp only [List.zip_cons_cons, List.mem_cons]; exact Or.inr hp))
  rw [hd, flat_eq_sequence]
  simp only [MultiCat.ofLogitsSeq, Cat.mask]
  generalize mc = mc'
  clear hd hs hl
  induction mc' generalizing ms with
  | nil => simp
  | cons c cs ih =>
      cases ms with
      | nil => simp
      | cons m ms => simp [ih ms]

/-- a flat mask is split by the law's own `action_dims` and then applied component-wise -/
theorem multicat_mask_flat (mc : MultiCat α) (m : List Bool) (h : m.length = mc.dims.sum) :
    mc.maskFlat exp log m = List.zipWith (fun c mi => c.mask exp log mi) mc (splitBy mc.dims m) := by
  unfold MultiCat.maskFlat
  have hsp := splitBy_spec mc.dims m h
  apply multicat_mask_componentwise
  · have := congrArg List.length hsp.2
    simpa [MultiCat.dims] using this
  · intro p hp
    obtain ⟨i, hi, rfl⟩ := List.getElem_of_mem hp
    have hlen : (splitBy mc.dims m).length = mc.length := by
      have := congrArg List.length hsp.2
      simpa [MultiCat.dims] using this
    have hi1 : i < mc.length := by
      have := hi; rw [List.length_zip, hlen] at this; omega
    have hi2 : i < (splitBy mc.dims m).length := by omega
    simp only [List.getElem_zip]
    have h2 := hsp.2
    have : ((splitBy mc.dims m).map List.length)[i]? = (mc.dims)[i]? := by rw [h2]
    simp only [MultiCat.dims, List.getElem?_map] at this
    rw [List.getElem?_eq_getElem hi1] at this
    have h3 : (splitBy (List.map Cat.n mc) m)[i]? = some ((splitBy mc.dims m)[i]) :=
      List.getElem?_eq_getElem hi2
    rw [h3] at this
    simpa using this

/-- hence every component of a masked product law chooses allowed actions only -/
theorem multicat_masked_allowed (mc : MultiCat α) (ms : List (List Bool))
    (hl : ms.length = mc.length) (hs : ∀ p ∈ mc.zip ms, p.2.length = p.1.n)
    (hf : ∀ p ∈ mc.zip ms, HasFinite (maskLogits p.2 (p.1.getLogits log))) (noise : List (List α)) :
    allZip (fun (mi : List Bool) n => mi.getD n false) ms (MultiCat.mode (mc.maskSeq exp log ms)) = true ∧
    allZip (fun (mi : List Bool) n => mi.getD n false) ms
      (MultiCat.sample log (mc.maskSeq exp log ms) noise) = true := by
  rw [multicat_mask_componentwise mc ms hl hs]
  clear hs
  induction mc generalizing ms noise with
  | nil => cases ms <;> simp_all [MultiCat.mode, MultiCat.sample, allZip]
  | cons c cs ih =>
      cases ms with
      | nil => simp at hl
      | cons m ms =>
          have hf0 := hf (c, m) (by simp)
          have ih' := fun nz => ih ms (by simpa using hl)
            (fun p hp => hf p (by simp only [List.zip_cons_cons, List.mem_cons]; exact Or.inr hp)) nz
          constructor
          · simp only [List.zipWith_cons_cons, MultiCat.mode, List.map_cons, allZip, Bool.and_eq_true]
            exact ⟨(masked_mode_allowed c m hf0).2, (ih' []).1⟩
          · cases noise with
            | nil =>
                simp only [List.zipWith_cons_cons, MultiCat.sample, allZip, Bool.and_eq_true]
                exact ⟨(masked_sample_allowed c m hf0 []).2, (ih' []).2⟩
            | cons g gs =>
                simp only [List.zipWith_cons_cons, MultiCat.sample, allZip, Bool.and_eq_true]
                exact ⟨(masked_sample_allowed c m hf0 g).2, (ih' gs).2⟩

end chosen

/-! ## policies -/

section policy
variable {exp log : α → α}

/-- **without a key an actor-critic policy returns the mode** of the (masked) law -/
theorem policy_no_key_is_mode (head : Law α) (mask : Option Mask) :
    acCall exp log head mask none = (actionLayer exp log head mask).mode exp := rfl

/-- with a key it returns a sample of that same law -/
theorem policy_key_is_sample (head : Law α) (mask : Option Mask) (nz : Noise α) :
    acCall exp log head mask (some nz) = (actionLayer exp log head mask).sample exp log nz := rfl

/-- the mask is applied exactly when the law is maskable -/
theorem actionLayer_masked (head : Law α) (m : Mask) (h : head.maskable = true) :
    actionLayer exp log head (some m) = head.mask exp log m := by
  simp [actionLayer, h]

theorem actionLayer_unmaskable (head : Law α) (m : Mask) (h : head.maskable = false) :
    actionLayer exp log head (some m) = head := by
  simp [actionLayer, h]

/-- **with a key the policy samples from the very law whose log-probability it reports**
    (discrete laws): `action_and_value` returns the action `__call__` returns under the same
    key and mask, together with that law's log-probability of this action -/
theorem policy_key_samples_same_law (c : α) (head : Law α) (value : α) (mask : Option Mask)
    (nz : Noise α) (hd : head.maskable = true) :
    (acActionAndValue exp log c head value mask nz).1 = acCall exp log head mask (some nz) ∧
    (acActionAndValue exp log c head value mask nz).2.2
      = (actionLayer exp log head mask).logProb exp log c (acCall exp log head mask (some nz)) ∧
    (acEvaluate exp log c head value mask (acCall exp log head mask (some nz))).2
      = (acActionAndValue exp log c head value mask nz).2.2 := by
  have hm : (actionLayer exp log head mask).maskable = true := by
    cases mask with
    | none => simpa [actionLayer] using hd
    | some m =>
        rw [actionLayer_masked head m hd]
        cases head <;> cases m <;> simp_all [Law.mask, Law.maskable]
  unfold acActionAndValue acCall acEvaluate
  generalize actionLayer exp log head mask = dist at hm
  cases dist <;> simp_all [Law.maskable, Law.sampleAndLogProb]

/-- the same for the continuous heads (never masked): the reported log-density is the law's
    log-density of the returned sample, provided the scales are non-zero -/
theorem policy_key_samples_same_law_normal (c : α) (d : Normal α) (hσ : d.scale ≠ 0) (value : α)
    (mask : Option Mask) (z : α) :
    (acActionAndValue exp log c (.normal d) value mask (.z z)).1
        = acCall exp log (.normal d) mask (some (.z z)) ∧
    (acActionAndValue exp log c (.normal d) value mask (.z z)).2.2
      = (Law.normal d).logProb exp log c (acCall exp log (.normal d) mask (some (.z z))) := by
  have hl : actionLayer exp log (.normal d) mask = .normal d := by
    cases mask <;> simp [actionLayer, Law.maskable]
  unfold acActionAndValue acCall
  rw [hl]
  simp only [Law.sampleAndLogProb, Law.sample, Law.logProb, Normal.sampleAndLogProb, Normal.sample,
    Normal.logProb, true_and, Option.some.injEq]
  have : (d.scale * z + d.loc - d.loc) / d.scale = z := by field_simp; ring
  rw [this]; ring

/-! ### Q policy -/

/-- **without a key, or with `ε ≤ 0`, the Q policy is greedy** -/
theorem q_no_key_is_mode (q : List α) (mask : Option (List Bool)) (eps : α) :
    qSelect exp log q mask eps none = (qDist exp log q mask).mode := rfl

theorem q_eps_nonpos_is_mode (q : List α) (mask : Option (List Bool)) (eps : α) (h : eps ≤ 0)
    (key : Option (α × List α)) :
    qSelect exp log q mask eps key = (qDist exp log q mask).mode := by
  cases key with
  | none => rfl
  | some k => obtain ⟨u, g⟩ := k; simp [qSelect, not_lt.mpr h]

/-- **the Q policy departs from the greedy action only if `u < ε`** (`u` the uniform draw), so
    with `u ~ U[0,1)` the departure probability is at most `ε` -/
theorem q_departs_only_if_u_lt_eps (q : List α) (mask : Option (List Bool)) (eps : α)
    (key : Option (α × List α))
    (h : qSelect exp log q mask eps key ≠ (qDist exp log q mask).mode) :
    ∃ u g, key = some (u, g) ∧ u < eps ∧ 0 < eps ∧
      qSelect exp log q mask eps key = (qDist exp log q mask).sample log g := by
  cases key with
  | none => exact absurd rfl h
  | some k =>
      obtain ⟨u, g⟩ := k
      by_cases he : 0 < eps
      · by_cases hu : u < eps
        · exact ⟨u, g, rfl, hu, he, by simp [qSelect, he, hu]⟩
        · exact absurd (by simp [qSelect, he, hu]) h
      · exact absurd (by simp [qSelect, he]) h

/-- **in every mode (greedy, stochastic, ε-greedy) the Q policy chooses an allowed action** -/
theorem q_policy_allowed_all_modes (q : List α) (m : List Bool) (eps : α)
    (hf : HasFinite (maskLogits m (q.map some))) (hq : HasFinite (q.map some))
    (E : ExpLog exp log) (key : Option (α × List α)) :
    qSelect exp log q (some m) eps key < m.length ∧
      m.getD (qSelect exp log q (some m) eps key) false = true := by
  -- the masked law is built from the normalised logits of `Categorical(logits=q)`
  have hf' : HasFinite (maskLogits m ((Cat.ofLogits exp log (q.map some)).getLogits log)) := by
    rw [hasFinite_iff_get] at hf ⊢
    obtain ⟨i, x, hx⟩ := hf
    obtain ⟨hm, hl⟩ := maskLogits_finite_allowed m _ i x hx
    refine ⟨i, x - log (sumExp exp (q.map some)), ?_⟩
    rw [maskLogits_get, hm]
    simp only [Cat.ofLogits, Cat.getLogits, logSoftmax, List.getElem?_map] at hl ⊢
    rw [hl]; rfl
  have hmode := masked_mode_allowed (exp := exp) (log := log) (Cat.ofLogits exp log (q.map some)) m hf'
  cases key with
  | none => exact hmode
  | some k =>
      obtain ⟨u, g⟩ := k
      simp only [qSelect, qDist]
      split
      · split
        · exact masked_sample_allowed _ m hf' g
        · exact hmode
      · exact hmode

/-! ### SAC policy -/

/-- without a key the SAC policy returns the mode `g(μ)`, with a key the sample whose
    log-density `action_and_log_prob` reports (see `C15.sample_and_logprob_consistent`) -/
theorem sac_no_key_is_mode (sig : α → α) (d : SquashedNormal α) :
    sacCall sig d none = d.mode sig := rfl

theorem sac_key_samples_same_law (sig : α → α) (c : α) (d : SquashedNormal α) (z : α) :
    (sacActionAndLogProb exp log sig c d z).1 = sacCall sig d (some z) := rfl

theorem sac_diag_no_key_is_mode (sig : α → α) (d : SquashedDiag α) :
    sacCallDiag sig d none = d.mode sig := rfl

theorem sac_diag_key_samples_same_law (sig : α → α) (c : α) (d : SquashedDiag α) (z : List α) :
    (sacActionAndLogProbDiag exp log sig c d z).1 = sacCallDiag sig d (some z) := rfl

end policy

/-! ## end-to-end: the action of an actor-critic policy respects the mask -/

section endtoend
variable {exp log : α → α}

/-- **Discrete actions**: with any key or none, the action is an allowed category -/
theorem ac_discrete_action_allowed (c : Cat α) (m : List Bool)
    (hf : HasFinite (maskLogits m (c.getLogits log))) (key : Option (List α)) :
    allowedAct [] (.flat m)
      (acCall exp log (.cat c) (some (.flat m)) (key.map Noise.gumbel)) = true := by
  cases key with
  | none =>
      simp only [Option.map_none, acCall, actionLayer, Law.maskable, if_true, Law.mask, Law.mode,
        allowedAct]
      exact (masked_mode_allowed c m hf).2
  | some g =>
      simp only [Option.map_some, acCall, actionLayer, Law.maskable, if_true, Law.mask, Law.sample,
        allowedAct]
      exact (masked_sample_allowed c m hf g).2

/-- **Multi-discrete actions**: every component of the action is allowed by its mask piece -/
theorem ac_multidiscrete_action_allowed (mc : MultiCat α) (ms : List (List Bool))
    (hl : ms.length = mc.length) (hs : ∀ p ∈ mc.zip ms, p.2.length = p.1.n)
    (hf : ∀ p ∈ mc.zip ms, HasFinite (maskLogits p.2 (p.1.getLogits log)))
    (key : Option (List (List α))) :
    allowedAct [] (.seq ms)
      (acCall exp log (.multicat mc) (some (.seq ms)) (key.map Noise.gumbels)) = true := by
  cases key with
  | none =>
      simp only [Option.map_none, acCall, actionLayer, Law.maskable, if_true, Law.mask, Law.mode,
        allowedAct]
      exact (multicat_masked_allowed mc ms hl hs hf []).1
  | some g =>
      simp only [Option.map_some, acCall, actionLayer, Law.maskable, if_true, Law.mask, Law.sample,
        allowedAct]
      exact (multicat_masked_allowed mc ms hl hs hf g).2

/-- **Multi-binary actions** without a key: no masked bit is set -/
theorem ac_multibinary_mode_allowed (bs : List (Bern α)) (m : List Bool) (h : m.length = bs.length) :
    allowedAct [] (.flat m) (acCall exp log (.bern bs) (some (.flat m)) none) = true := by
  simp only [acCall, actionLayer, Law.maskable, if_true, Law.mask, Law.mode, allowedAct]
  exact bernoulli_vector_mode_masked bs m h

end endtoend

/-! ## Φ is true of the model -/

section phi
variable {exp log : α → α}

theorem allZip_renorm (m : List Bool) (P : List α) (z : α) (h : m.length = P.length) :
    allZip (fun (mp : Bool × α) q => if mp.1 then decide (q = mp.2 / z) else decide (q = 0))
      (m.zip P) (List.zipWith (fun (b : Bool) p => if b then p / z else 0) m P) = true := by
  induction m generalizing P with
  | nil => cases P <;> simp_all [allZip]
  | cons b bs ih =>
      cases P with
      | nil => simp at h
      | cons p ps =>
          simp only [List.zip_cons_cons, List.zipWith_cons_cons, allZip, ih ps (by simpa using h),
            Bool.and_true]
          cases b <;> simp

/-- `phiMasked` (masked probabilities zero, the others renormalised proportionally) holds for
    the model's masked law -/
theorem phiMasked_model (E : ExpLog exp log) (c : Cat α) (hc : Cat.Normal exp c) (m : List Bool)
    (hlen : m.length = c.n) (hf : HasFinite (maskLogits m (c.getLogits log))) :
    phiMasked (fun a b => decide (a = b)) m (c.getProbs exp) ((c.mask exp log m).getProbs exp) = true := by
  have hl : m.length = (c.getProbs exp).length := by rw [length_getProbs E, hlen]
  rw [masked_renormalised E c hc m hf]
  simp only [phiMasked, Bool.and_eq_true, beq_iff_eq]
  refine ⟨⟨by simp [hl], hl⟩, ?_⟩
  exact allZip_renorm m _ _ hl

theorem allZip_self_map {β γ : Type} (f : β → γ → Bool) (g : β → γ) (l : List β)
    (h : ∀ x ∈ l, f x (g x) = true) : allZip f l (l.map g) = true := by
  induction l with
  | nil => rfl
  | cons x xs ih =>
      simp only [List.map_cons, allZip, Bool.and_eq_true]
      exact ⟨h x (by simp), ih (fun y hy => h y (List.mem_cons_of_mem _ hy))⟩

/-- the log-space form `phiMaskedLog` holds for the model's masked law: its log-probabilities
    are the allowed log-probabilities minus the log of the allowed mass -/
theorem phiMaskedLog_model (c : Cat α) (m : List Bool) (hlen : m.length = c.n) :
    phiMaskedLog exp log (fun a b => decide (a = b)) m (c.getLogits log)
      ((c.mask exp log m).getLogits log) = true := by
  have hl : m.length = (c.getLogits log).length := by rw [length_getLogits, hlen]
  rw [mask_getLogits]
  simp only [phiMaskedLog, Bool.and_eq_true, beq_iff_eq]
  refine ⟨⟨?_, hl⟩, ?_⟩
  · simp [logSoftmax, maskLogits_length, hl]
  · unfold logSoftmax sumExp
    apply allZip_self_map
    intro x _
    cases x <;> simp [eeqv]

/-- `allowed` holds for the mode and for every sample of a masked law -/
theorem allowed_mode_model (c : Cat α) (m : List Bool)
    (hf : HasFinite (maskLogits m (c.getLogits log))) :
    allowed m ((c.mask exp log m).mode : Int) = true := by
  simp only [allowed, Int.toNat_natCast, Bool.and_eq_true, decide_eq_true_eq]
  exact ⟨Int.natCast_nonneg _, (masked_mode_allowed c m hf).2⟩

theorem allowed_sample_model (c : Cat α) (m : List Bool)
    (hf : HasFinite (maskLogits m (c.getLogits log))) (noise : List α) :
    allowed m ((c.mask exp log m).sample log noise : Int) = true := by
  simp only [allowed, Int.toNat_natCast, Bool.and_eq_true, decide_eq_true_eq]
  exact ⟨Int.natCast_nonneg _, (masked_sample_allowed c m hf noise).2⟩

/-- **Multi-binary actions** with a key: no masked bit is ever sampled (uniform draws `≥ 0`) -/
theorem ac_multibinary_sample_allowed (bs : List (Bern α)) (m : List Bool) (us : List α)
    (h : m.length = bs.length) (hu : us.length = bs.length) (hu0 : ∀ u ∈ us, 0 ≤ u) :
    allowedAct [] (.flat m) (acCall exp log (.bern bs) (some (.flat m)) (some (.unif us))) = true := by
  simp only [acCall, actionLayer, Law.maskable, if_true, Law.mask, Law.sample, allowedAct]
  induction bs generalizing m us with
  | nil => cases m <;> cases us <;> simp_all [maskBits, sampleBits, allZip]
  | cons b bs ih =>
      cases m with
      | nil => simp at h
      | cons a as =>
          cases us with
          | nil => simp at hu
          | cons u us =>
              have := ih as us (by simpa using h) (by simpa using hu)
                (fun u hu' => hu0 u (List.mem_cons_of_mem _ hu'))
              simp only [maskBits, sampleBits, allZip, this, Bool.and_true]
              cases a
              · rw [(bernoulli_masked_bit_false (exp := exp) (log := log) b).2.2 u (hu0 u (by simp))]; rfl
              · simp

end phi

/-! ## non-vacuity -/

/-- a concrete masked law over ℚ-like arithmetic is impossible without `exp`; over ℝ the
    hypotheses are satisfiable: logits `[0, 1, 2]`, mask `[true, false, true]` -/
example : HasFinite (maskLogits [true, false, true] ([some (0 : ℝ), some 1, some 2])) :=
  ⟨0, by simp [maskLogits]⟩

example : (maskLogits [true, false, true] ([some (0 : ℝ), some 1, some 2])) = [some 0, none, some 2] := by
  simp [maskLogits]

example :
    ((Cat.ofLogits Real.exp Real.log [some (0 : ℝ), some 1, some 2]).mask Real.exp Real.log
        [true, false, true]).prob Real.exp (1 : Int) = 0 :=
  (masked_prob_zero expLog_real _ _ ⟨_, by simp [maskLogits, Cat.ofLogits, Cat.getLogits, logSoftmax]; left; rfl⟩ 1
    (by simp)).1

end Lerax.C16
