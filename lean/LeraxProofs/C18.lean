/-
  C18 — Saving and loading a policy restores it exactly or fails loudly.

  Theorems about `LeraxModel/Serial.lean` (model of `Serializable.serialize/deserialize`, of
  pathlib's stem/suffix rule and of Equinox's leaf-stream reader), for ALL paths, file-system
  states, trees and skeletons:

  paths        `splitName_join`, `splitName_eqx` (pathlib split, re-parsing `stem + ".eqx"`),
               `path_roundtrip` (suffix "" or ".eqx", any `no_suffix`: the file written is the file
               opened), `path_roundtrip_no_suffix`, `path_other_suffix` (any other suffix with
               `no_suffix=False`: written to `<stem>.eqx`, looked for under the given name — two
               different files), `path_roundtrip_iff` (exactly when the two sides agree)
  file system  `save_ok` (the directory is created; saving never fails for want of it),
               `save_load_roundtrip` (every prior state, so also not-yet-existing directories),
               `save_load_other_suffix` (the load is a loud file-not-found)
  leaves       `leaf_roundtrip` (induction over the leaf list), `roundtrip_outputs`,
               `deserialise_ok_iff` (the reader's exact acceptance rule)
  mismatch     `mismatch_fails` (ALL pairs, incl. strict prefixes; hypothesis `noCoercion`),
               `mismatch_fails_arrays`, `length_mismatch_fails` (no hypothesis),
               `longer_file_fails`; `eqx_reader_accepts_prefix` — the defect of the Equinox reader
               alone (lerax before the repair), for every tree and continuation
  Φ            `phi_path`, `phi_roundtrip`, `phi_mismatch`: the predicates the driver decides on
               implementation outcomes hold of the model
  Non-vacuity examples and witnesses (real policy architectures via `qSpecs`/`acSpecs`) at the end.
-/
import LeraxModel.Serial

namespace Lerax.C18
open Lerax.Serial

set_option linter.unusedSectionVars false

/-! ## pathlib's stem/suffix split -/

/-- `stem + suffix == name` for every file name -/
theorem splitName_join (n : Name) : (splitName n).1 ++ (splitName n).2 = n := by
  unfold splitName
  split
  · simp
  · rename_i dot pre h
    split
    · simp
    · have key := List.takeWhile_append_dropWhile (p := (· != '.')) (l := n.reverse)
      rw [h] at key
      calc _ = (List.takeWhile (· != '.') n.reverse ++ dot :: pre).reverse := by simp
        _ = n := by rw [key]; simp

/-- a non-empty name has a non-empty stem -/
theorem stem_ne_nil (n : Name) (hn : n ≠ []) : (splitName n).1 ≠ [] := by
  unfold splitName
  split
  · simpa using hn
  · rename_i dot pre h
    split
    · simpa using hn
    · rename_i hc
      simp at hc
      simpa using hc.1

/-- re-parsing `stem + ".eqx"` gives back `(stem, ".eqx")` -/
theorem splitName_eqx (s : Name) (hs : s ≠ []) : splitName (s ++ eqx) = (s, eqx) := by
  have hr : (s ++ eqx).reverse = 'x' :: 'q' :: 'e' :: '.' :: s.reverse := by simp [eqx]
  unfold splitName
  simp only [hr]
  have h1 : List.dropWhile (· != '.') ('x' :: 'q' :: 'e' :: '.' :: s.reverse) = '.' :: s.reverse := by
    simp [List.dropWhile]
  have h2 : List.takeWhile (· != '.') ('x' :: 'q' :: 'e' :: '.' :: s.reverse) = ['x', 'q', 'e'] := by
    simp [List.takeWhile]
  rw [h1, h2]
  simp [hs, eqx]


/-! ## where `serialize` writes and where `deserialize` looks -/

theorem stem_append_suffix (p : Path) : p.stem ++ p.suffix = p.name := splitName_join p.name

theorem withSuffix_eqx_suffix (p : Path) (hn : p.name ≠ []) : (p.withSuffix eqx).suffix = eqx := by
  simp [Path.withSuffix, Path.suffix, Path.stem, splitName_eqx _ (stem_ne_nil _ hn)]

theorem eqx_ne_nil : eqx ≠ [] := by simp [eqx]

/-- `with_suffix` never touches the directory part -/
theorem savePath_dirs (p : Path) (ns : Bool) :
    (savePath p ns).abs = p.abs ∧ (savePath p ns).dirs = p.dirs := by
  unfold savePath eqxWithSuffix leraxSuffix Path.withSuffix
  split <;> split <;> simp

theorem loadPath_dirs (p : Path) : (loadPath p).abs = p.abs ∧ (loadPath p).dirs = p.dirs := by
  unfold loadPath eqxWithSuffix Path.withSuffix
  split <;> simp

/-- **Path round trip.**  For every path whose final component has suffix `""` or `".eqx"`,
    with or without `no_suffix`, the file that `serialize` writes is the file that
    `deserialize` of the same path string opens.  (`p.name ≠ []`: pathlib raises `ValueError`
    for an empty final component, on saving and on loading.) -/
theorem path_roundtrip (p : Path) (ns : Bool) (hn : p.name ≠ [])
    (h : p.suffix = [] ∨ p.suffix = eqx) : loadPath p = savePath p ns := by
  rcases h with h | h
  · -- no suffix: whoever sees the empty suffix first appends ".eqx"; Equinox then keeps it
    have h1 : (p.withSuffix eqx).suffix = eqx := withSuffix_eqx_suffix p hn
    cases ns <;> simp [loadPath, savePath, eqxWithSuffix, leraxSuffix, h, h1, eqx_ne_nil,
      Ne.symm eqx_ne_nil]
  · simp [loadPath, savePath, eqxWithSuffix, leraxSuffix, h, eqx_ne_nil]

/-- with `no_suffix=True` any non-empty suffix is kept by both sides -/
theorem path_roundtrip_no_suffix (p : Path) (h : p.suffix ≠ []) : loadPath p = savePath p true := by
  simp [loadPath, savePath, eqxWithSuffix, leraxSuffix, h]

/-- **Other suffixes, `no_suffix=False`:** `serialize` *replaces* the suffix by `.eqx`, while
    `deserialize` opens the name as given — two different files in the same directory. -/
theorem path_other_suffix (p : Path) (h1 : p.suffix ≠ []) (h2 : p.suffix ≠ eqx) :
    savePath p false = p.withSuffix eqx ∧ loadPath p = p ∧
    (savePath p false).name ≠ (loadPath p).name := by
  have hn : p.name ≠ [] := by
    intro h0
    have := stem_append_suffix p
    rw [h0] at this
    simp at this
    exact h1 this.2
  have h3 : (p.withSuffix eqx).suffix = eqx := withSuffix_eqx_suffix p hn
  have hs : savePath p false = p.withSuffix eqx := by
    simp [savePath, eqxWithSuffix, leraxSuffix, h2, h3, eqx_ne_nil]
  have hl : loadPath p = p := by simp [loadPath, eqxWithSuffix, h1]
  refine ⟨hs, hl, ?_⟩
  rw [hs, hl]
  intro he
  have : p.stem ++ eqx = p.stem ++ p.suffix := by
    rw [stem_append_suffix]; exact he
  exact h2 (List.append_cancel_left this).symm

/-- **Exactly when the two sides agree** (non-empty final component): suffix `""`, suffix
    `".eqx"`, or `no_suffix=True`. -/
theorem path_roundtrip_iff (p : Path) (ns : Bool) (hn : p.name ≠ []) :
    loadPath p = savePath p ns ↔ (p.suffix = [] ∨ p.suffix = eqx ∨ ns = true) := by
  constructor
  · intro h
    by_cases h1 : p.suffix = []
    · exact Or.inl h1
    by_cases h2 : p.suffix = eqx
    · exact Or.inr (Or.inl h2)
    cases ns
    · exact absurd (congrArg Path.name h).symm (path_other_suffix p h1 h2).2.2
    · exact Or.inr (Or.inr rfl)
  · rintro (h | h | h)
    · exact path_roundtrip p ns hn (Or.inl h)
    · exact path_roundtrip p ns hn (Or.inr h)
    · subst h
      by_cases h1 : p.suffix = []
      · exact path_roundtrip p true hn (Or.inl h1)
      · exact path_roundtrip_no_suffix p h1


/-! ## the leaf stream -/

section
variable {δ : Type} (coerce : DType → PyT → List δ → List δ)

theorem readLeaf_self (l : Leaf δ) : readLeaf coerce l.spec l.record = .ok l := by
  cases l <;> simp [Leaf.spec, Leaf.record, readLeaf, numel]

theorem assertLeaf_self (l : Leaf δ) : assertLeaf l.spec l = .ok () := by
  cases l <;> simp [Leaf.spec, assertLeaf]

/-- reading with the saved tree's own skeleton consumes exactly its records, whatever follows -/
theorem readAll_serialise (t : Tree δ) (rest : Stream δ) :
    readAll coerce (skeletonOf t) (serialise t ++ rest) = .ok (t, rest) := by
  induction t with
  | nil => simp [skeletonOf, serialise, readAll]
  | cons l ls ih =>
      simp only [skeletonOf, serialise, List.map_cons, List.cons_append, readAll] at ih ⊢
      rw [readLeaf_self, ih]

theorem assertAll_self (t : Tree δ) : assertAll (skeletonOf t) t = .ok () := by
  induction t with
  | nil => simp [skeletonOf, assertAll]
  | cons l ls ih =>
      simp only [skeletonOf, List.map_cons, assertAll] at ih ⊢
      rw [assertLeaf_self]; exact ih

/-- **Leaf round trip.**  For every tree (any number of leaves, any shapes, dtypes, data, any
    mixture of arrays and Python scalars), loading what was saved with the skeleton built from
    the same constructor arguments returns exactly that tree — every data element identical. -/
theorem leaf_roundtrip (t : Tree δ) :
    deserialise coerce (skeletonOf t) (serialise t) = .ok t := by
  have h := readAll_serialise coerce t []
  simp only [List.append_nil] at h
  simp [deserialise, h, assertAll_self]

/-- … **and therefore identical actions, values and log-probabilities on every observation**:
    anything computed from the leaves (and from constructor arguments) agrees. -/
theorem roundtrip_outputs {β : Type} (f : Tree δ → β) (t t' : Tree δ)
    (h : deserialise coerce (skeletonOf t) (serialise t) = .ok t') : f t' = f t := by
  rw [leaf_roundtrip] at h
  cases h; rfl

/-- **The defect in the unrepaired code**, for every tree and every continuation: Equinox's
    reader returns the *shorter* tree from a file that holds a longer one — silently. -/
theorem eqx_reader_accepts_prefix (t extra : Tree δ) :
    deserialiseEqx coerce (skeletonOf t) (serialise (t ++ extra)) = .ok t := by
  have h := readAll_serialise coerce t (serialise extra)
  simp only [serialise, List.map_append] at h ⊢
  simp [deserialiseEqx, h, assertAll_self]

/-- the repaired reader rejects exactly that situation -/
theorem longer_file_fails (t extra : Tree δ) (he : extra ≠ []) :
    deserialise coerce (skeletonOf t) (serialise (t ++ extra)) = .error .trailing := by
  have h := readAll_serialise coerce t (serialise extra)
  simp only [serialise, List.map_append] at h ⊢
  simp [deserialise, h, assertAll_self, he]

end


/-! ## mismatching skeletons -/

section
variable {δ : Type} (coerce : DType → PyT → List δ → List δ)

/-- what a successful load means, unfolded -/
theorem deserialise_ok (sk : Skeleton) (rs : Stream δ) (t : Tree δ)
    (h : deserialise coerce sk rs = .ok t) :
    readAll coerce sk rs = .ok (t, []) ∧ assertAll sk t = .ok () := by
  unfold deserialise at h
  split at h
  · cases h
  · rename_i ls rest hr
    split at h
    · cases h
    · rename_i ha
      split at h
      · rename_i he
        cases h
        have : rest = [] := by simpa using he
        subst this
        exact ⟨hr, ha⟩
      · cases h

/-- one leaf: read + assert succeeded ⇒ the acceptance rule holds -/
theorem accepts_of_read (s : Spec) (r : Rec δ) (l : Leaf δ)
    (h1 : readLeaf coerce s r = .ok l) (h2 : assertLeaf s l = .ok ()) : accepts s r = true := by
  cases s with
  | arr sh d =>
      simp only [readLeaf, Except.ok.injEq] at h1
      subst h1
      simp only [assertLeaf] at h2
      split at h2
      · cases h2
      · split at h2
        · cases h2
        · rename_i ha hb
          simp only [bne_iff_ne, ne_eq, Decidable.not_not] at ha hb
          simp [accepts, ha, hb]
  | py t =>
      simp only [readLeaf] at h1
      split at h1
      · rename_i hn; simpa [accepts] using hn
      · cases h1

/-- **Exact acceptance (necessity).**  A load that returns a tree consumed the whole file and
    every record met its skeleton leaf's acceptance rule; in particular the file holds exactly
    as many leaves as the skeleton. -/
theorem acceptsAll_of_ok (sk : Skeleton) : ∀ (rs : Stream δ) (t : Tree δ),
    readAll coerce sk rs = .ok (t, []) → assertAll sk t = .ok () → acceptsAll sk rs = true := by
  induction sk with
  | nil =>
      intro rs t h _
      simp only [readAll, Except.ok.injEq, Prod.mk.injEq] at h
      obtain ⟨_, h2⟩ := h
      subst h2; rfl
  | cons s ss ih =>
      intro rs t h ha
      cases rs with
      | nil => simp [readAll] at h
      | cons r rs' =>
          simp only [readAll] at h
          split at h
          · cases h
          · rename_i l hl
            split at h
            · cases h
            · rename_i ls rest hr
              simp only [Except.ok.injEq, Prod.mk.injEq] at h
              obtain ⟨ht, hrest⟩ := h
              subst ht; subst hrest
              simp only [assertAll] at ha
              split at ha
              · cases ha
              · rename_i hal
                simp only [acceptsAll, Bool.and_eq_true]
                exact ⟨accepts_of_read coerce s r l hl hal, ih rs' ls hr ha⟩

theorem acceptsAll_length (sk : Skeleton) : ∀ (rs : Stream δ),
    acceptsAll sk rs = true → rs.length = sk.length := by
  induction sk with
  | nil => intro rs h; cases rs <;> simp_all [acceptsAll]
  | cons s ss ih =>
      intro rs h
      cases rs with
      | nil => simp [acceptsAll] at h
      | cons r rs' =>
          simp only [acceptsAll, Bool.and_eq_true] at h
          simp [ih rs' h.2]

/-- one aligned pair: accepted, and not a cross-kind coercion ⇒ same signature -/
theorem spec_eq_of_accepts (s : Spec) (l : Leaf δ) (ha : accepts s l.record = true)
    (hc : kindOk s l = true) : l.spec = s := by
  cases s <;> cases l <;> simp [accepts, Leaf.record, Leaf.spec, kindOk] at ha hc ⊢
  · exact ha
  · rcases hc with hc | hc
    · exact hc ha.1
    · exact hc ha.2
  · exact hc ha
  · exact hc.symm

theorem skeleton_eq_of_acceptsAll (sk : Skeleton) : ∀ (t : Tree δ),
    acceptsAll sk (serialise t) = true → noCoercion sk t = true → skeletonOf t = sk := by
  induction sk with
  | nil => intro t h _; cases t <;> simp_all [acceptsAll, serialise, skeletonOf]
  | cons s ss ih =>
      intro t h hc
      cases t with
      | nil => simp [acceptsAll, serialise] at h
      | cons l ls =>
          simp only [serialise, List.map_cons, acceptsAll, Bool.and_eq_true] at h
          simp only [noCoercion, Bool.and_eq_true] at hc
          simp only [skeletonOf, List.map_cons, List.cons.injEq]
          exact ⟨spec_eq_of_accepts s l h.1 hc.1, ih ls h.2 hc.2⟩

/-- **Mismatch fails loudly.**  For ALL pairs (saved tree, skeleton): if their leaf signature
    lists differ — in a shape, a dtype, the number of leaves, *including the case where one list
    is a strict prefix of the other* — then loading is an error, never a tree.  The only
    hypothesis is `noCoercion`: no aligned pair of leaves of *different kind* (array vs Python
    `bool`/`int`/`float`) that Equinox's scalar conversion `type(x)(np.load(f).item())` would
    accept anyway (see `coercion_is_silent` below: without it the statement is false for the
    Equinox reader).  Trees of arrays only need no hypothesis (`mismatch_fails_arrays`). -/
theorem mismatch_fails (sk : Skeleton) (t : Tree δ) (hne : skeletonOf t ≠ sk)
    (hc : noCoercion sk t = true) : ∃ e, deserialise coerce sk (serialise t) = .error e := by
  cases h : deserialise coerce sk (serialise t) with
  | error e => exact ⟨e, rfl⟩
  | ok t' =>
      obtain ⟨hr, ha⟩ := deserialise_ok coerce sk _ t' h
      exact absurd (skeleton_eq_of_acceptsAll sk t (acceptsAll_of_ok coerce sk _ t' hr ha) hc) hne

/-- **Different number of leaves ⇒ error, unconditionally** (file longer than the skeleton —
    the repaired end-of-file rule — or shorter — `EOFError`; an earlier leaf may fail first). -/
theorem length_mismatch_fails (sk : Skeleton) (t : Tree δ) (hl : t.length ≠ sk.length) :
    ∃ e, deserialise coerce sk (serialise t) = .error e := by
  cases h : deserialise coerce sk (serialise t) with
  | error e => exact ⟨e, rfl⟩
  | ok t' =>
      obtain ⟨hr, ha⟩ := deserialise_ok coerce sk _ t' h
      have := acceptsAll_length sk _ (acceptsAll_of_ok coerce sk _ t' hr ha)
      simp [serialise] at this
      exact absurd this hl

theorem noCoercion_of_arrays (sk : Skeleton) : ∀ (t : Tree δ),
    (∀ s ∈ sk, s.isArr = true) → (∀ s ∈ skeletonOf t, s.isArr = true) → noCoercion sk t = true := by
  induction sk with
  | nil => intro t _ _; cases t <;> rfl
  | cons s ss ih =>
      intro t h1 h2
      cases t with
      | nil => rfl
      | cons l ls =>
          have hs := h1 s (by simp)
          have hl := h2 l.spec (by simp [skeletonOf])
          have := ih ls (fun x hx => h1 x (by simp [hx]))
            (fun x hx => h2 x (by simp only [skeletonOf, List.map_cons, List.mem_cons]; exact Or.inr hx))
          cases s <;> cases l <;> simp_all [noCoercion, kindOk, Spec.isArr, Leaf.spec]

/-- arrays only (network parameters, space bounds): no hypothesis at all -/
theorem mismatch_fails_arrays (sk : Skeleton) (t : Tree δ) (hne : skeletonOf t ≠ sk)
    (h1 : ∀ s ∈ sk, s.isArr = true) (h2 : ∀ s ∈ skeletonOf t, s.isArr = true) :
    ∃ e, deserialise coerce sk (serialise t) = .error e :=
  mismatch_fails coerce sk t hne (noCoercion_of_arrays sk t h1 h2)

end


/-! ## through the file system: new directories, the written file, the opened file -/

section
variable {δ : Type} (coerce : DType → PyT → List δ → List δ)

theorem mem_prefixes (d : List Name) : d ∈ prefixes d := by
  induction d with
  | nil => simp [prefixes]
  | cons x xs ih => simp [prefixes, ih]

theorem key_savePath (fs : FS (Stream δ)) (p : Path) (ns : Bool) :
    fs.key (savePath p ns) = (fs.absDir p, (savePath p ns).name) := by
  simp [FS.key, FS.absDir, savePath_dirs]

theorem key_loadPath (fs : FS (Stream δ)) (p : Path) :
    fs.key (loadPath p) = (fs.absDir p, (loadPath p).name) := by
  simp [FS.key, FS.absDir, loadPath_dirs]

/-- **Saving never fails for want of a directory**: whatever exists beforehand (in particular
    when the target directory, or any number of its ancestors, does not exist yet) the file is
    written, under the resolved name, with the tree's records; nothing else changes. -/
theorem save_ok (fs : FS (Stream δ)) (p : Path) (ns : Bool) (t : Tree δ) :
    ∃ fs', fs.save p ns t = .ok fs' ∧ fs'.cwd = fs.cwd ∧
      fs'.files = ((fs.absDir p, (savePath p ns).name), serialise t) :: fs.files := by
  unfold FS.save
  by_cases hd : fs.dirs.contains (fs.absDir p) = true
  · simp only [hd, if_true]
    rw [key_savePath]
    have hd' : fs.absDir p ∈ fs.dirs := by simpa using hd
    simp [FS.write, hd']
  · simp only [hd]
    have hk : (fs.mkdirP (fs.absDir p)).key (savePath p ns)
        = (fs.absDir p, (savePath p ns).name) := by
      rw [key_savePath]; simp [FS.absDir, FS.mkdirP]
    simp only [Bool.false_eq_true, if_false]
    rw [hk]
    simp [FS.write, FS.mkdirP, mem_prefixes]

/-- **Save, then load with the same path string and the same constructor arguments**: for
    every file system state, every path with suffix `""` or `".eqx"` (relative or absolute,
    existing or new directories), with or without `no_suffix`, and every tree, the load returns
    exactly the saved tree. -/
theorem save_load_roundtrip (fs : FS (Stream δ)) (p : Path) (ns : Bool) (t : Tree δ)
    (hn : p.name ≠ []) (h : p.suffix = [] ∨ p.suffix = eqx) :
    ∃ fs', fs.save p ns t = .ok fs' ∧ fs'.load coerce p (skeletonOf t) = .ok t := by
  obtain ⟨fs', hs, hcwd, hf⟩ := save_ok fs p ns t
  refine ⟨fs', hs, ?_⟩
  have hk : fs'.key (loadPath p) = (fs.absDir p, (savePath p ns).name) := by
    rw [key_loadPath, path_roundtrip p ns hn h]
    simp [FS.absDir, hcwd]
  simp [FS.load, FS.read, hk, hf, leaf_roundtrip]

/-- **Other suffixes (`model.ckpt`, `model.v1.5`, …) with `no_suffix=False`**: the save goes to
    `<stem>.eqx`; loading the same path string looks for the name as given and — unless such a
    file was already there — fails with file-not-found (loudly), for every skeleton. -/
theorem save_load_other_suffix (fs : FS (Stream δ)) (p : Path) (t : Tree δ) (sk : Skeleton)
    (h1 : p.suffix ≠ []) (h2 : p.suffix ≠ eqx)
    (hfresh : fs.files.lookup (fs.key (loadPath p)) = none) :
    ∃ fs', fs.save p false t = .ok fs' ∧ fs'.load coerce p sk = .error .notFound := by
  obtain ⟨fs', hs, hcwd, hf⟩ := save_ok fs p false t
  refine ⟨fs', hs, ?_⟩
  have hk : fs'.key (loadPath p) = fs.key (loadPath p) := by
    simp [FS.key, FS.absDir, hcwd]
  have hne : ((fs.key (loadPath p)) == ((fs.absDir p, (savePath p false).name) : Key)) = false := by
    rw [key_loadPath]
    have := (path_other_suffix p h1 h2).2.2
    simp [Ne.symm this]
  simp [FS.load, FS.read, hk, hf, List.lookup, hne, hfresh]

end

/-! ## Φ holds of the model -/

section
variable {δ : Type} [DecidableEq δ] (coerce : DType → PyT → List δ → List δ)

theorem phi_path (fs : FS (Stream δ)) (p : Path) (ns : Bool) (hn : p.name ≠ []) :
    phiPath fs p (fs.key (savePath p ns)) = true := by
  by_cases h : roundtripSuffix p = true
  · have h' : p.suffix = [] ∨ p.suffix = eqx := by simpa [roundtripSuffix] using h
    simp [phiPath, path_roundtrip p ns hn h']
  · simp [phiPath, h]

theorem phi_roundtrip (t : Tree δ) :
    phiRoundtrip t (deserialise coerce (skeletonOf t) (serialise t)) = true := by
  simp [leaf_roundtrip, phiRoundtrip]

theorem phi_mismatch (sk : Skeleton) (t : Tree δ) :
    phiMismatch sk t (isOk (deserialise coerce sk (serialise t))) = true := by
  by_cases h : (skeletonOf t != sk && noCoercion sk t) = true
  · simp only [Bool.and_eq_true, bne_iff_ne, ne_eq] at h
    obtain ⟨e, he⟩ := mismatch_fails coerce sk t h.1 h.2
    simp [phiMismatch, he, isOk]
  · simp [phiMismatch, h]

end


/-! ## sufficiency: the acceptance rule is exact -/

section
variable {δ : Type} (coerce : DType → PyT → List δ → List δ)

theorem read_of_accepts (s : Spec) (r : Rec δ) (h : accepts s r = true) :
    ∃ l, readLeaf coerce s r = .ok l ∧ assertLeaf s l = .ok () := by
  cases s with
  | arr sh d =>
      simp only [accepts, Bool.and_eq_true, beq_iff_eq] at h
      exact ⟨.arr r.shape r.dtype r.data, rfl, by simp [assertLeaf, h.1, h.2]⟩
  | py t =>
      simp only [accepts] at h
      exact ⟨.py t (if r.dtype == t.store then r.data else coerce r.dtype t r.data),
        by simp only [readLeaf, h, if_true], rfl⟩

theorem ok_of_acceptsAll (sk : Skeleton) : ∀ (rs : Stream δ), acceptsAll sk rs = true →
    ∃ t, readAll coerce sk rs = .ok (t, []) ∧ assertAll sk t = .ok () := by
  induction sk with
  | nil => intro rs h; cases rs <;> simp_all [acceptsAll, readAll, assertAll]
  | cons s ss ih =>
      intro rs h
      cases rs with
      | nil => simp [acceptsAll] at h
      | cons r rs' =>
          simp only [acceptsAll, Bool.and_eq_true] at h
          obtain ⟨l, hl, hal⟩ := read_of_accepts coerce s r h.1
          obtain ⟨ls, hr, ha⟩ := ih rs' h.2
          exact ⟨l :: ls, by simp [readAll, hl, hr], by simp [assertAll, hal, ha]⟩

/-- **The reader's behaviour, exactly**: a load returns a tree iff the file holds as many
    records as the skeleton has leaves and each record meets its leaf's rule — equal shape and
    dtype for arrays, exactly one element for Python scalars. -/
theorem deserialise_ok_iff (sk : Skeleton) (rs : Stream δ) :
    (∃ t, deserialise coerce sk rs = .ok t) ↔ acceptsAll sk rs = true := by
  constructor
  · rintro ⟨t, h⟩
    obtain ⟨hr, ha⟩ := deserialise_ok coerce sk rs t h
    exact acceptsAll_of_ok coerce sk rs t hr ha
  · intro h
    obtain ⟨t, hr, ha⟩ := ok_of_acceptsAll coerce sk rs h
    exact ⟨t, by simp [deserialise, hr, ha]⟩

end

/-! ## non-vacuity, and witnesses for the unrepaired behaviour -/

/-- fill a skeleton with data (zeros) -/
def inhabit : Skeleton → Tree Nat
  | [] => []
  | .arr s d :: ss => .arr s d (List.replicate (numel s) 0) :: inhabit ss
  | .py t :: ss => .py t [0] :: inhabit ss

def noConv : DType → PyT → List Nat → List Nat := fun _ _ x => x

/-- a new, dotted directory; no suffix; both `no_suffix` settings end at `…/model.eqx` -/
example :
    let p := parsePath "runs/v1.2/model".toList
    p.name ≠ [] ∧ p.suffix = [] ∧ loadPath p = savePath p false ∧ loadPath p = savePath p true ∧
    (savePath p false).name = "model.eqx".toList ∧ (savePath p false).dirs = p.dirs := by decide

/-- `model.v1.5`: saved as `model.v1.eqx`, looked for as `model.v1.5` -/
example :
    let p := parsePath "/abs/model.v1.5".toList
    (savePath p false).name = "model.v1.eqx".toList ∧ (loadPath p).name = "model.v1.5".toList ∧
    (savePath p true).name = "model.v1.5".toList := by decide

def exTree : Tree Nat :=
  [.arr [2] .f32 [10, 11], .py .pfloat [7], .arr [3, 2] .f32 [1, 2, 3, 4, 5, 6], .arr [] .f32 [9]]

example : deserialise noConv (skeletonOf exTree) (serialise exTree) = .ok exTree :=
  leaf_roundtrip noConv exTree

/-- a different width is refused -/
example : errOf (deserialise noConv [.arr [2] .f32, .py .pfloat, .arr [4, 2] .f32, .arr [] .f32]
    (serialise exTree)) = some .shape := by decide

/-- `MLPQPolicy` on `Discrete(4)`, `Box(3)` observations, `width_size = 4 = n`: the depth-1 leaf
    list is a strict prefix of the depth-2 one … -/
def q1 : Skeleton := qSpecs .f32 4 [.box [3]] .pfloat 4 1
def q2 : Skeleton := qSpecs .f32 4 [.box [3]] .pfloat 4 2

example : q1 ≠ q2 ∧ q1.isPrefixOf q2 = true ∧ q1.length = 7 ∧ q2.length = 9 := by decide

/-- … Equinox's reader alone loads the depth-2 file into the depth-1 policy without complaint
    (the behaviour of lerax before the repair) … -/
example : isOk (deserialiseEqx noConv q1 (serialise (inhabit q2))) = true := by decide

/-- … the repaired `deserialize` refuses it, and the other direction fails with end-of-file. -/
example : errOf (deserialise noConv q1 (serialise (inhabit q2))) = some .trailing := by decide
example : errOf (deserialise noConv q2 (serialise (inhabit q1))) = some .eof := by decide

/-- same phenomenon for `MLPActorCriticPolicy` (`feature_size = action_width = n = 3`,
    `action_depth` 2 vs 3) -/
example :
    let a := acSpecs .f32 (.discrete 3) [.box [2]] 3 4 1 4 1 3 2
    let b := acSpecs .f32 (.discrete 3) [.box [2]] 3 4 1 4 1 3 3
    a ≠ b ∧ a.isPrefixOf b = true ∧ isOk (deserialiseEqx noConv a (serialise (inhabit b))) = true ∧
    errOf (deserialise noConv a (serialise (inhabit b))) = some .trailing := by decide

/-- **Why `mismatch_fails` needs `noCoercion`.**  Equinox converts whatever one-element record
    it finds at a Python-scalar leaf.  A file saved from an actor-critic on a `Box((1,))` action
    space with `Tuple(Discrete, Box(2))` observations has the same number of leaves as the
    policy on `MultiDiscrete((1,))` with `Tuple(Box(1), Box(2))` observations, equal array
    shapes throughout, and `bool`/`float32[1]` records where the latter keeps two `int`s: the
    signature lists differ, `noCoercion` is false, and the load succeeds. -/
example :
    let a := acSpecs .f32 (.box [1]) [.discrete 3, .box [2]] 4 4 1 4 1 4 1
    let b := acSpecs .f32 (.multiDiscrete [1]) [.box [1], .box [2]] 4 4 1 4 1 4 1
    a ≠ b ∧ noCoercion b (inhabit a) = false ∧
    isOk (deserialise noConv b (serialise (inhabit a))) = true := by decide

end Lerax.C18
