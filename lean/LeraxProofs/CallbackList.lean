/-
  CallbackList (C11 / C19): an aggregate of observers is an observer, and every member's state evolves
  exactly as if that member were the only callback (given the sub-key of its position) — the members
  cannot see or disturb one another, whatever they compute.
-/
import LeraxModel.CallbackList
import LeraxProofs.C11

namespace Lerax.CallbackList
open Lerax.Env Lerax.Learn

variable {Core Cb K : Type} [Keys K]

/-- position `i` of the aggregate hook is member `i`'s hook on member `i`'s state and the `i`-th sub-key;
    nothing else enters (no length hypotheses: `zip` truncation is part of the statement) -/
theorem zipIdx_get (f : Callbacks Core Cb K → Cb → K → Cb) (ms : List (Callbacks Core Cb K))
    (sts : List Cb) (key : K) (start i : Nat) :
    (zipIdx f ms sts key start)[i]? =
      (ms[i]?).bind (fun m => (sts[i]?).map (fun s => f m s (sub key (start + i)))) := by
  induction ms generalizing sts start i with
  | nil => simp [zipIdx]
  | cons m ms ih =>
      cases sts with
      | nil => cases i <;> simp [zipIdx]
      | cons s sts =>
          cases i with
          | zero => simp [zipIdx]
          | succ i =>
              simp only [zipIdx, List.getElem?_cons_succ]
              rw [ih sts (start + 1) i]
              have : start + 1 + i = start + (i + 1) := by omega
              rw [this]

theorem zipIdx_length (f : Callbacks Core Cb K → Cb → K → Cb) (ms : List (Callbacks Core Cb K))
    (sts : List Cb) (key : K) (start : Nat) :
    (zipIdx f ms sts key start).length = min ms.length sts.length := by
  induction ms generalizing sts start with
  | nil => simp [zipIdx]
  | cons m ms ih =>
      cases sts with
      | nil => simp [zipIdx]
      | cons s sts => simp [zipIdx, ih sts (start + 1)]

theorem initIdx_get (core : Core) (ms : List (Callbacks Core Cb K)) (key : K) (start i : Nat) :
    (initIdx core ms key start)[i]? = (ms[i]?).map (fun m => m.init core (sub key (start + i))) := by
  induction ms generalizing start i with
  | nil => simp [initIdx]
  | cons m ms ih =>
      cases i with
      | zero => simp [initIdx]
      | succ i =>
          simp only [initIdx, List.getElem?_cons_succ]
          rw [ih (start + 1) i]
          have : start + 1 + i = start + (i + 1) := by omega
          rw [this]

/-- changing another member's state does not change member `i`'s result (isolation of one hook call) -/
theorem zipIdx_ignores_others (f : Callbacks Core Cb K → Cb → K → Cb) (ms : List (Callbacks Core Cb K))
    (sts sts' : List Cb) (key : K) (i : Nat) (h : sts[i]? = sts'[i]?) :
    (zipIdx f ms sts key 0)[i]? = (zipIdx f ms sts' key 0)[i]? := by
  rw [zipIdx_get, zipIdx_get, h]

/-- the joint invariant: same core, and position `i` of the aggregate state is the solo state -/
def Rel (i : Nat) (s : Core × List Cb) (s' : Core × Cb) : Prop := s.1 = s'.1 ∧ s.2[i]? = some s'.2

theorem step_rel (coreStep : Core → K → Core) (ms : List (Callbacks Core Cb K)) (i : Nat)
    (m : Callbacks Core Cb K) (hm : ms[i]? = some m) (s : Core × List Cb) (s' : Core × Cb)
    (h : Rel i s s') (key : K) :
    Rel i (step coreStep (listCallbacks ms) s key) (step coreStep (atPos i m) s' key) := by
  obtain ⟨h1, h2⟩ := h
  refine ⟨by simp [step, h1], ?_⟩
  simp only [step, listCallbacks, atPos]
  rw [zipIdx_get, hm, h2, h1]
  simp

theorem rollout_rel (coreStep : Core → K → Core) (ms : List (Callbacks Core Cb K)) (i : Nat)
    (m : Callbacks Core Cb K) (hm : ms[i]? = some m) (keys : List K) (s : Core × List Cb) (s' : Core × Cb)
    (h : Rel i s s') :
    Rel i (keys.foldl (step coreStep (listCallbacks ms)) s) (keys.foldl (step coreStep (atPos i m)) s') := by
  induction keys generalizing s s' with
  | nil => exact h
  | cons k ks ih => exact ih _ _ (step_rel coreStep ms i m hm s s' h k)

theorem iteration_rel (coreStep : Core → K → Core) (train : Core → K → Core) (n : Nat)
    (ms : List (Callbacks Core Cb K)) (i : Nat) (m : Callbacks Core Cb K) (hm : ms[i]? = some m)
    (s : Core × List Cb) (s' : Core × Cb) (h : Rel i s s') (key : K) :
    Rel i (iteration coreStep train n (listCallbacks ms) s key) (iteration coreStep train n (atPos i m) s' key) := by
  have hr := rollout_rel coreStep ms i m hm ((List.range n).map (fun j => sub (sub key 0) j)) s s' h
  obtain ⟨h1, h2⟩ := hr
  refine ⟨by simp only [iteration]; rw [h1], ?_⟩
  simp only [iteration, listCallbacks, atPos] at h1 h2 ⊢
  rw [zipIdx_get, hm, h2, h1]
  simp

/-- **Every member of a `CallbackList` evolves as if it were alone.**  For any members (any hook
    functions), any position `i`, any number of iterations and steps: after `learn`, position `i` of the
    aggregate callback state is exactly the state member `i` reaches when it is the only callback and
    draws the `i`-th sub-key of each callback key; and the core (policy, environments, optimiser, buffers)
    is the same in both runs. -/
theorem member_evolves_alone (reset : K → Core) (coreStep : Core → K → Core) (train : Core → K → Core)
    (numSteps numIters : Nat) (ms : List (Callbacks Core Cb K)) (i : Nat) (m : Callbacks Core Cb K)
    (hm : ms[i]? = some m) (key : K) :
    Rel i (learn reset coreStep train numSteps numIters (listCallbacks ms) key)
          (learn reset coreStep train numSteps numIters (atPos i m) key) := by
  simp only [learn]
  generalize (List.range numIters).map (fun j => sub (sub key 2) j) = iterKeys
  have h0 : Rel i
      (reset (sub key 1), (listCallbacks ms).onTrainingStart (reset (sub key 1))
          ((listCallbacks ms).init (reset (sub key 1)) (sub key 1)) (sub key 0))
      (reset (sub key 1), (atPos i m).onTrainingStart (reset (sub key 1))
          ((atPos i m).init (reset (sub key 1)) (sub key 1)) (sub key 0)) := by
    refine ⟨rfl, ?_⟩
    simp only [listCallbacks, atPos]
    rw [zipIdx_get, hm, initIdx_get, hm]
    simp
  have hfold : ∀ (s : Core × List Cb) (s' : Core × Cb), Rel i s s' →
      Rel i (iterKeys.foldl (iteration coreStep train numSteps (listCallbacks ms)) s)
            (iterKeys.foldl (iteration coreStep train numSteps (atPos i m)) s') := by
    induction iterKeys with
    | nil => intro s s' h; exact h
    | cons k ks ih =>
        intro s s' h
        exact ih _ _ (iteration_rel coreStep train numSteps ms i m hm s s' h k)
  obtain ⟨h1, h2⟩ := hfold _ _ h0
  refine ⟨h1, ?_⟩
  simp only [listCallbacks, atPos] at h1 h2 ⊢
  rw [zipIdx_get, hm, h2, h1]
  simp

/-- corollary: the other members are irrelevant to member `i` — two lists that agree at position `i`
    give member `i` the same final state, whatever else they contain (and however long they are) -/
theorem member_independent_of_others (reset : K → Core) (coreStep : Core → K → Core) (train : Core → K → Core)
    (numSteps numIters : Nat) (ms ms' : List (Callbacks Core Cb K)) (i : Nat) (m : Callbacks Core Cb K)
    (hm : ms[i]? = some m) (hm' : ms'[i]? = some m) (key : K) :
    (learn reset coreStep train numSteps numIters (listCallbacks ms) key).2[i]? =
      (learn reset coreStep train numSteps numIters (listCallbacks ms') key).2[i]? := by
  rw [(member_evolves_alone reset coreStep train numSteps numIters ms i m hm key).2,
      (member_evolves_alone reset coreStep train numSteps numIters ms' i m hm' key).2]

/-- corollary: an aggregate of observers is an observer (instance of `C11.observer_noninterference`) -/
theorem list_is_observer {Cb' : Type} (reset : K → Core) (coreStep : Core → K → Core) (train : Core → K → Core)
    (numSteps numIters : Nat) (ms : List (Callbacks Core Cb K)) (cb' : Callbacks Core Cb' K) (key : K) :
    (learn reset coreStep train numSteps numIters (listCallbacks ms) key).1 =
      (learn reset coreStep train numSteps numIters cb' key).1 :=
  Lerax.C11.observer_noninterference reset coreStep train numSteps numIters _ cb' key

/-- the aggregate keeps one state per member (the list neither grows nor shrinks) -/
theorem list_state_length (ms : List (Callbacks Core Cb K)) (core : Core) (sts : List Cb) (key : K)
    (h : sts.length = ms.length) :
    ((listCallbacks ms).onStep core sts key).length = ms.length ∧
    ((listCallbacks ms).onIteration core sts key).length = ms.length := by
  simp [listCallbacks, zipIdx_length, h]

theorem continueAll_iff (flags : List Bool) : continueAll flags = true ↔ ∀ b ∈ flags, b = true := by
  simp [continueAll]

/-! non-vacuity: two counting members with different increments in one list; each reaches its solo value -/
def counter (inc : Nat) : Callbacks Nat Nat Nat :=
  { init := fun _ _ => 0, onStep := fun c n _ => n + inc * c, onIteration := fun _ n _ => n + 1,
    onTrainingStart := fun _ n _ => n, onTrainingEnd := fun _ n _ => n }

example : (learn (fun k => k) (fun c k => c + k) (fun c _ => 2 * c) 3 2
      (listCallbacks [counter 1, counter 5]) 5).2 =
    [(learn (fun k => k) (fun c k => c + k) (fun c _ => 2 * c) 3 2 (atPos 0 (counter 1)) 5).2,
     (learn (fun k => k) (fun c k => c + k) (fun c _ => 2 * c) 3 2 (atPos 1 (counter 5)) 5).2] ∧
    (learn (fun k => k) (fun c k => c + k) (fun c _ => 2 * c) 3 2 (listCallbacks [counter 1, counter 5]) 5).2
      ≠ [0, 0] := by decide

end Lerax.CallbackList
