/-
  C17 / C02 — the generic theorems specialised to ℝ with `Real.sin`, `Real.cos`, `Real.pi` and
  the floor-based remainder: the trigonometric hypotheses (`-1 ≤ sin, cos ≤ 1`, `0 < π`) and the
  `%` contract are discharged from Mathlib.
-/
import LeraxProofs.C17Classic
import Mathlib.Analysis.SpecialFunctions.Trigonometric.Basic

namespace Lerax.C17
open Lerax.Classic Lerax.GymRef

/-- float `%` over ℝ -/
noncomputable def realPmod (a m : ℝ) : ℝ := a - m * ((⌊a / m⌋ : ℤ) : ℝ)

/-- **C02 bound theorem over ℝ** with the real sine and cosine. -/
theorem classic_obs_in_space_real :
    (∀ (p : MountainCarP ℝ) (y : S2 ℝ), p.minPosition ≤ p.maxPosition → 0 ≤ p.maxSpeed →
      inBox (mcObsLow p) (mcObsHigh p) (mcObs (mcClip p y)) = true) ∧
    (∀ (p : CmcP ℝ) (y : S2 ℝ), p.minPosition ≤ p.maxPosition → 0 ≤ p.maxSpeed →
      inBox (cmcObsLow p) (cmcObsHigh p) (cmcObs (cmcClip p y)) = true) ∧
    (∀ (p : PendulumP ℝ) (y : S2 ℝ), 0 ≤ p.maxSpeed →
      inBox ((pendulumObsHigh p).map Neg.neg) (pendulumObsHigh p)
        (pendulumObs Real.sin Real.cos (pendulumClip realPmod Real.pi p y)) = true) ∧
    (∀ (p : AcrobotP ℝ) (y : S4 ℝ), 0 ≤ p.maxVel1 → 0 ≤ p.maxVel2 →
      inBox ((acrobotObsHigh p).map Neg.neg) (acrobotObsHigh p)
        (Classic.acrobotObs Real.sin Real.cos (acrobotClip realPmod Real.pi p y)) = true) :=
  classic_obs_in_space Real.sin Real.cos realPmod Real.pi
    (fun x => ⟨Real.neg_one_le_sin x, Real.sin_le_one x⟩)
    (fun x => ⟨Real.neg_one_le_cos x, Real.cos_le_one x⟩)

/-- **Acrobot limits over ℝ**: lerax's wrap-and-clip equals Gymnasium's `wrap`/`bound`. -/
theorem acrobot_limits_eq_real (fuel : Nat) (p : AcrobotP ℝ) (y : S4 ℝ)
    (ha : -Real.pi ≤ GymRef.wrap fuel (-Real.pi) Real.pi y.a ∧
          GymRef.wrap fuel (-Real.pi) Real.pi y.a < Real.pi)
    (hb : -Real.pi ≤ GymRef.wrap fuel (-Real.pi) Real.pi y.b ∧
          GymRef.wrap fuel (-Real.pi) Real.pi y.b < Real.pi) :
    acrobotClip realPmod Real.pi p y = acrobotLimits fuel Real.pi (acroG p) y :=
  acrobot_limits_eq realPmod pmodFloor_spec Real.pi Real.pi_pos fuel p y ha hb

/-- **CartPole / Acrobot fields over ℝ** with the real sine and cosine. -/
theorem fields_eq_real (pc : CartPoleP ℝ) (pa : AcrobotP ℝ) (y : S4 ℝ) (a : Nat) :
    (a < 2 → cartpoleDynamics Real.sin Real.cos pc y a = cartpoleField Real.sin Real.cos (cartG pc) y a) ∧
    acrobotDynamics Real.sin Real.cos Real.pi pa y a =
      acrobotField Real.sin Real.cos Real.pi (acroG pa) y a :=
  ⟨cartpole_field_eq _ _ pc y a, acrobot_field_eq _ _ _ pa y a⟩

end Lerax.C17
