/-
  C19 — Reported performance numbers are faithful to what happened.
-/
import LeraxModel.Logging
import Mathlib.Algebra.Order.Field.Basic
import Mathlib.Tactic.Ring

namespace Lerax.C19
open Lerax.Env Lerax.Logging

set_option linter.unusedSectionVars false

section logging
variable {α : Type} [Field α]

/-- state reached from an arbitrary state by a history -/
def runFrom (alpha : α) (s : LogState α) (h : List (α × Bool)) : LogState α :=
  h.foldl (fun s x => s.next x.1 x.2 alpha) s

def emaFrom (alpha : α) (acc : α) (xs : List α) : α :=
  xs.foldl (fun acc x => alpha * x + (1 - alpha) * acc) acc

/-- Invariant linking the callback state to the running (partial) episode `(cr, cl)`:
    either an episode has just ended (the accumulators will be cleared by the next step) or the
    accumulators hold the partial sums since the last episode end. -/
def Linked (s : LogState α) (cr : α) (cl : Nat) : Prop :=
  (s.episodeDone = true ∧ cr = 0 ∧ cl = 0) ∨
  (s.episodeDone = false ∧ s.episodeReturn = cr ∧ s.episodeLength = cl)

theorem run_from_spec (alpha : α) (h : List (α × Bool)) (s : LogState α) (cr : α) (cl : Nat)
    (hl : Linked s cr cl) :
    (runFrom alpha s h).averageReturn =
      emaFrom alpha s.averageReturn ((episodesAux h cr cl).map Prod.fst) ∧
    (runFrom alpha s h).averageLength =
      emaFrom alpha s.averageLength ((episodesAux h cr cl).map (fun e => ((e.2 : Nat) : α))) ∧
    (runFrom alpha s h).step = s.step + h.length := by
  induction h generalizing s cr cl with
  | nil => simp [runFrom, emaFrom, episodesAux]
  | cons x rest ih =>
      obtain ⟨r, d⟩ := x
      have hret : (s.next r d alpha).episodeReturn = cr + r := by
        rcases hl with ⟨h1, h2, _⟩ | ⟨h1, h2, _⟩ <;> simp [LogState.next, h1, h2, ofBool]
      have hlen : (s.next r d alpha).episodeLength = cl + 1 := by
        rcases hl with ⟨h1, _, h3⟩ | ⟨h1, _, h3⟩ <;> simp [LogState.next, h1, h3]
      cases d
      · -- the episode continues
        have hl' : Linked (s.next r false alpha) (cr + r) (cl + 1) :=
          Or.inr ⟨by simp [LogState.next], hret, hlen⟩
        have := ih (s.next r false alpha) (cr + r) (cl + 1) hl'
        simp only [runFrom, List.foldl_cons, episodesAux, Bool.false_eq_true, if_false,
          List.length_cons] at this ⊢
        refine ⟨by rw [this.1]; simp [LogState.next], by rw [this.2.1]; simp [LogState.next], ?_⟩
        rw [this.2.2]; simp [LogState.next]; omega
      · -- the episode ends here
        have hl' : Linked (s.next r true alpha) 0 0 := Or.inl ⟨by simp [LogState.next], rfl, rfl⟩
        have := ih (s.next r true alpha) 0 0 hl'
        simp only [runFrom, List.foldl_cons, episodesAux, if_true, List.length_cons, List.map_cons,
          emaFrom] at this ⊢
        refine ⟨?_, ?_, ?_⟩
        · rw [this.1]
          have : (s.next r true alpha).averageReturn = alpha * (cr + r) + (1 - alpha) * s.averageReturn := by
            have h0 := hret
            simp only [LogState.next] at h0 ⊢
            simp [h0]
          rw [this]
        · rw [this.2.1]
          have : (s.next r true alpha).averageLength
              = alpha * (((cl + 1 : Nat)) : α) + (1 - alpha) * s.averageLength := by
            have h0 := hlen
            simp only [LogState.next] at h0 ⊢
            simp [h0]
          rw [this]
        · rw [this.2.2]; simp [LogState.next]; omega

/-- **At every episode end the logged statistics are updated with exactly the sum of rewards and
    the number of steps since the previous episode end, blended with the smoothing factor** — for
    every reward/done history: the logged averages are the EMA over the completed episodes'
    returns / lengths, and `step` counts the environment steps. -/
theorem log_history (alpha : α) (h : List (α × Bool)) :
    (run alpha h).averageReturn = ema alpha ((episodes h).map Prod.fst) ∧
    (run alpha h).averageLength = ema alpha ((episodes h).map (fun e => ((e.2 : Nat) : α))) ∧
    (run alpha h).step = h.length := by
  have := run_from_spec alpha h LogState.initial 0 0 (Or.inr ⟨rfl, rfl, rfl⟩)
  simpa [run, runFrom, ema, emaFrom, episodes, LogState.initial] using this

/-- **… and are unchanged otherwise.** -/
theorem unchanged_between_episode_ends (s : LogState α) (r alpha : α) :
    (s.next r false alpha).averageReturn = s.averageReturn ∧
    (s.next r false alpha).averageLength = s.averageLength := by
  simp [LogState.next]

/-- **Separately per environment**: the statistics of environment `i` depend on environment
    `i`'s own history only (the callback state is vmapped with the environments). -/
theorem per_env_independent (alpha : α) (hs hs' : List (List (α × Bool))) (i : Nat)
    (h : hs[i]? = hs'[i]?) :
    ((hs.map (run alpha))[i]?).map (fun s => (s.averageReturn, s.averageLength, s.step)) =
    ((hs'.map (run alpha))[i]?).map (fun s => (s.averageReturn, s.averageLength, s.step)) := by
  simp [List.getElem?_map, h]

theorem foldl_add_nat (xs : List Nat) (c : Nat) : xs.foldl (· + ·) c = c + xs.sum := by
  induction xs generalizing c with
  | nil => simp
  | cons x xs ih => simp [ih, Nat.add_assoc]

/-- **The record handed to the backend carries the cumulative number of environment steps**:
    the sum over environments of the lengths of their histories. -/
theorem record_step_is_total_steps (alpha : α) (hs : List (List (α × Bool))) :
    (iterationRecord (hs.map (run alpha))).1 = (hs.map List.length).sum := by
  simp only [iterationRecord, foldl_add_nat, Nat.zero_add, List.map_map]
  congr 1
  apply List.map_congr_left
  intro h _
  exact (log_history alpha h).2.2

/-- **Records reach the backend in iteration order**: logging once per iteration appends one
    record per iteration, the k-th carrying the k-th cumulative step count. -/
theorem records_in_order (steps : List Nat) :
    (steps.foldl (fun log s => log ++ [s]) ([] : List Nat)) = steps := by
  suffices ∀ acc : List Nat, steps.foldl (fun log s => log ++ [s]) acc = acc ++ steps by simpa using this []
  induction steps with
  | nil => simp
  | cons s rest ih => intro acc; simp [ih]

end logging

/-! ### evaluation helper -/

section evaluation
variable {S A O K PS α : Type} [Keys K] [AddMonoid α]

theorem foldl_add_eq (xs : List α) (c : α) : xs.foldl (· + ·) c = c + xs.sum := by
  induction xs generalizing c with
  | nil => simp
  | cons x xs ih => simp [ih, add_assoc]

theorem scanCode_done_sum (E : Env S A O α K) (P : EvalPolicy PS O A K) (det : Bool) (s : S) (ps : PS)
    (ks : List K) : (scanCode E P det (s, ps, true) ks).sum = 0 := by
  induction ks with
  | nil => simp [scanCode]
  | cons k ks ih => simp [scanCode, ih]

/-- **`rollout_scan` returns the sum of rewards up to and including the first step whose
    successor is terminal or truncated, or of all `max_steps` rewards if there is none.** -/
theorem rollout_scan_sum (E : Env S A O α K) (P : EvalPolicy PS O A K) (det : Bool) (s : S) (ps : PS)
    (ks : List K) :
    (scanCode E P det (s, ps, false) ks).sum = episodeReturn E P det s ps ks := by
  induction ks generalizing s ps with
  | nil => simp [scanCode, episodeReturn]
  | cons k ks ih =>
      simp only [scanCode, Bool.false_eq_true, if_false, episodeReturn, List.sum_cons]
      cases hd : (scanStep E P det s ps k).2.2.2
      · simp [ih]
      · simp [scanCode_done_sum]

theorem rolloutScan_eq (E : Env S A O α K) (P : EvalPolicy PS O A K) (det : Bool) (key : K)
    (ks : List K) :
    rolloutScan E P det key ks = episodeReturn E P det (E.initial key) (P.reset key) ks := by
  simp [rolloutScan, foldl_add_eq, rollout_scan_sum]

/-- the step cap: no reward after `max_steps` keys is ever counted -/
theorem episodeReturn_cap (E : Env S A O α K) (P : EvalPolicy PS O A K) (det : Bool) (s : S) (ps : PS) :
    episodeReturn E P det s ps [] = 0 := rfl

/-- **`rollout_while` stops at the first terminal or truncated state**: from such a state it
    returns what has been accumulated; otherwise it adds the step's reward and continues. -/
theorem rollout_while_unfold (E : Env S A O α K) (P : EvalPolicy PS O A K) (det : Bool) (fuel : Nat)
    (s : S) (ps : PS) (key : K) (acc : α) :
    rolloutWhileFrom E P det (fuel + 1) s ps key acc =
      if E.terminal s key || E.truncate s then acc
      else
        let obs := E.observation s (sub key 1)
        let out := P.act ps obs (if det then none else some (sub key 2))
        let s' := E.transition s out.2 (sub key 3)
        rolloutWhileFrom E P det fuel s' out.1 (sub key 0) (acc + E.reward s out.2 s' (sub key 0)) := by
  simp [rolloutWhileFrom]

end evaluation

section average
variable {α : Type} [Field α]

/-- **`average_reward` is the mean of the per-episode returns of `num_episodes` independent
    keys.** -/
theorem average_reward_mean (episode : Nat → α) (n : Nat) :
    averageReward episode n = ((List.range n).map episode).sum / n := by
  simp [averageReward, foldl_add_eq]

end average

/-! ### non-vacuity -/

example : episodes ([(1, false), (2, true), (3, false), (4, true), (5, false)] : List (ℚ × Bool))
    = [(3, 2), (7, 2)] := by
  simp [episodes, episodesAux]; norm_num

example : (run (1/2 : ℚ) [(1, false), (2, true), (3, false), (4, true), (5, false)]).averageReturn
    = 1/2 * 7 + 1/2 * (1/2 * 3) := by
  norm_num [run, LogState.next, LogState.initial, Lerax.Logging.ofBool]

end Lerax.C19
