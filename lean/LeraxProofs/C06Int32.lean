/-
  C06, word size of `position` — the int32 counter of `ReplayBuffer` refines the `Nat`
  counter of `LeraxModel/Replay.lean` for every history of fewer than `2^31` insertions, so
  every C06 theorem proved over `Buf` holds of the 32-bit model on those histories; and the
  bound is tight: the `2^31`-th insertion makes `current_size` negative (`overflow_forgets`),
  which is why the property is claimed for histories below that length only.
-/
import LeraxModel.Replay

namespace Lerax.C06
open Lerax.Replay

variable {ρ : Type}

theorem toInt_of_small (p : BitVec 32) (h : p.toNat < 2 ^ 31) : p.toInt = (p.toNat : Int) := by
  rw [BitVec.toInt_eq_toNat_cond]; split <;> omega

/-- one insertion: same slot written, counter advanced by one, as long as the new count
    still fits in the non-negative half of int32 -/
theorem abs32_add32 (b : Buf32 ρ) (row : ρ) (h : b.pos.toNat + 1 < 2 ^ 31) :
    abs32 (add32 b row) = add (abs32 b) row := by
  have hi := toInt_of_small b.pos (by omega)
  have hidx : idx32 b.pos b.cap = b.pos.toNat % b.cap := by
    unfold idx32; rw [hi]; omega
  have hpos : (b.pos + 1).toNat = b.pos.toNat + 1 := by
    rw [BitVec.toNat_add]; simp; omega
  simp [abs32, add32, add, hidx]
  omega

theorem currentSize32_eq (b : Buf32 ρ) (h : b.pos.toNat < 2 ^ 31) :
    currentSize32 b = (currentSize (abs32 b) : Int) := by
  unfold currentSize32 currentSize abs32
  rw [toInt_of_small b.pos h]; simp only; omega

theorem validMask32_eq (b : Buf32 ρ) (h : b.pos.toNat < 2 ^ 31) :
    validMask32 b = validMask (abs32 b) := by
  unfold validMask32 validMask
  rw [currentSize32_eq b h]
  simp [abs32]
  intro a _; first | rfl | congr

theorem foldl_add32_pos (rows : List ρ) (b : Buf32 ρ)
    (h : b.pos.toNat + rows.length < 2 ^ 31) :
    (rows.foldl add32 b).pos.toNat = b.pos.toNat + rows.length := by
  induction rows generalizing b with
  | nil => simp
  | cons r rs ih =>
    have hpos : (b.pos + 1).toNat = b.pos.toNat + 1 := by
      rw [BitVec.toNat_add]; simp at h ⊢; omega
    simp only [List.foldl_cons, List.length_cons]
    rw [ih (add32 b r) (by simp [add32] at h ⊢; omega)]
    simp [add32]; omega

/-- **Refinement, every history shorter than 2^31.**  Folding the int32 `add32` over any rows
    from any state and forgetting the word size equals folding the `Nat` model's `add`. -/
theorem abs32_foldl (rows : List ρ) (b : Buf32 ρ)
    (h : b.pos.toNat + rows.length < 2 ^ 31) :
    abs32 (rows.foldl add32 b) = rows.foldl add (abs32 b) := by
  induction rows generalizing b with
  | nil => rfl
  | cons r rs ih =>
    simp only [List.foldl_cons, List.length_cons] at h ⊢
    have h1 : b.pos.toNat + 1 < 2 ^ 31 := by omega
    have hpos : (add32 b r).pos.toNat = b.pos.toNat + 1 := by
      simp [add32, BitVec.toNat_add]; omega
    rw [ih (add32 b r) (by omega), abs32_add32 b r h1]

/-- from the empty buffer: the int32 model *is* the `Nat` model on such histories, together
    with its validity mask — so `contents_lastN`, `valid_iff_written`, `flat_valid`,
    `sample_ok` transfer verbatim. -/
theorem int32_refines (C : Nat) (rows : List ρ) (h : rows.length < 2 ^ 31) :
    abs32 (rows.foldl add32 (empty32 C)) = rows.foldl add (empty C) ∧
    validMask32 (rows.foldl add32 (empty32 C)) = validMask (rows.foldl add (empty C)) := by
  have h0 : (empty32 C : Buf32 ρ).pos.toNat + rows.length < 2 ^ 31 := by simpa [empty32] using h
  have hr := abs32_foldl rows (empty32 C) h0
  refine ⟨by simpa [abs32, empty32, empty] using hr, ?_⟩
  have hp := foldl_add32_pos rows (empty32 C) h0
  rw [validMask32_eq _ (by rw [hp]; simpa [empty32] using h), hr]
  simp [abs32, empty32, empty]

/-- **The bound is tight.**  A buffer that has received `2^31 - 1` insertions reports, after
    one more, a negative `current_size`: no slot is valid although every slot is written.
    (Reaching this takes 2^31 `add` calls per environment; the property's histories are
    claimed below that length, see DESIGN §C06.) -/
theorem overflow_forgets (b : Buf32 ρ) (row : ρ) (hp : b.pos = BitVec.ofNat 32 (2 ^ 31 - 1)) :
    currentSize32 (add32 b row) < 0 ∧ (validMask32 (add32 b row)).all (· == false) = true := by
  have hneg : (add32 b row).pos.toInt = -2147483648 := by
    simp [add32, hp]
  have hcs : currentSize32 (add32 b row) < 0 := by
    unfold currentSize32; rw [hneg]; omega
  refine ⟨hcs, ?_⟩
  unfold validMask32
  simp only [List.all_map, List.all_eq_true, List.mem_range, Function.comp]
  intro j _
  have : ¬ ((j : Int) < currentSize32 (add32 b row)) := by omega
  simp [this]

/-- the hypotheses are met by a concrete non-trivial history (three insertions, capacity 2) -/
example : abs32 ([7, 8, 9].foldl add32 (empty32 2 : Buf32 Nat)) = [7, 8, 9].foldl add (empty 2) :=
  (int32_refines 2 [7, 8, 9] (by decide)).1

end Lerax.C06
