/-
  Cross-property composition for the reported training statistics (C04 ∘ C19):

  The on-policy `step` hands the logging callback `StepContext(…, done, reward, …)` where `reward` is the
  reward the environment produced for the executed (clipped) action — NOT the value-bootstrapped reward
  that is stored in the rollout buffer.  `callbackSignal` is that pair for one step; `signals` the list of
  pairs along a collected rollout.

  * `signal_spec` (C04): the signal's reward is the environment reward of the executed action, its done flag
    is the row's; the stored (buffer) reward differs from it exactly by `γ·V(successor)` on steps ended only
    by truncation.
  * `logged_statistics_of_collected_rollout` (C04 ∘ C19): for ANY environment, policy, rollout length and
    keys, the logging callback's average return / length after the rollout are the exponential moving
    averages over the completed episodes' sums of ENVIRONMENT rewards / lengths, episodes being delimited
    by the real done flags; `step` counts the environment steps.
-/
import LeraxProofs.C04
import LeraxProofs.C19

namespace Lerax.PipelineLog
open Lerax.Env Lerax.OnPolicy Lerax.Logging

set_option linter.unusedSectionVars false

section
variable {S A O K PS M α : Type} [Keys K] [Field α]
variable (E : Env S A O α K) (mask : S → K → Option M) (clip : A → A) (P : Policy PS O A M α K) (γ : α)

/-- what `step` passes to `callback.on_step`: (environment reward, done) -/
def callbackSignal (st : StepState S PS) (key : K) : α × Bool :=
  let obs := E.observation st.env (sub key 2)
  let m := mask st.env (sub key 2)
  let a := (P.actionAndValue st.policy obs (sub key 0) m).2.1
  let next := E.transition st.env (clip a) (sub key 1)
  (E.reward st.env (clip a) next (sub key 3), E.terminal next (sub key 4) || E.truncate next)

/-- the signals along a collected rollout -/
def signals : StepState S PS → List K → List (α × Bool)
  | _, [] => []
  | st, k :: ks => callbackSignal E mask clip P st k :: signals (collectStep E mask clip P γ st k).1 ks

/-- **C04.**  The callback sees the environment's own reward for the executed action and the row's done
    flag; the buffer's reward is that reward plus `γ·V(successor observation)` exactly on steps that were
    truncated without terminating. -/
theorem signal_spec (st : StepState S PS) (key : K) :
    let row := (collectStep E mask clip P γ st key).2
    let sig := callbackSignal E mask clip P st key
    let next := E.transition st.env (clip row.action) (sub key 1)
    sig.2 = row.done ∧
    sig.1 = E.reward st.env (clip row.action) next (sub key 3) ∧
    row.reward = sig.1 +
      (if E.truncate next && !E.terminal next (sub key 4) then
        γ * P.value (P.actionAndValue st.policy row.observation (sub key 0) row.mask).1
              (E.observation next (sub key 5)) else 0) := by
  simp only [collectStep, callbackSignal]
  refine ⟨trivial, trivial, ?_⟩
  by_cases h : (E.truncate (E.transition st.env
      (clip (P.actionAndValue st.policy (E.observation st.env (sub key 2)) (sub key 0) (mask st.env (sub key 2))).2.1)
      (sub key 1)) &&
    !E.terminal (E.transition st.env
      (clip (P.actionAndValue st.policy (E.observation st.env (sub key 2)) (sub key 0) (mask st.env (sub key 2))).2.1)
      (sub key 1)) (sub key 4)) = true
  · simp [h]
  · simp [h]

theorem signals_length (st : StepState S PS) (keys : List K) :
    (signals E mask clip P γ st keys).length = keys.length := by
  induction keys generalizing st with
  | nil => rfl
  | cons k ks ih => simp [signals, ih]

/-- the done flags the callback sees are the done flags recorded in the rollout, in order -/
theorem signals_dones (st : StepState S PS) (keys : List K) :
    (signals E mask clip P γ st keys).map Prod.snd =
      (collectRollout E mask clip P γ st keys).2.map (·.done) := by
  induction keys generalizing st with
  | nil => rfl
  | cons k ks ih =>
      simp only [signals, collectRollout, List.map_cons]
      rw [ih]
      simp [callbackSignal, collectStep]

/-- **C04 ∘ C19.**  Reported episode statistics after any collected rollout: EMA over the completed
    episodes of the sums of environment rewards (and of the episode lengths); the step counter is the
    number of environment steps. -/
theorem logged_statistics_of_collected_rollout (alpha : α) (st : StepState S PS) (keys : List K) :
    let h := signals E mask clip P γ st keys
    (run alpha h).averageReturn = ema alpha ((episodes h).map Prod.fst) ∧
    (run alpha h).averageLength = ema alpha ((episodes h).map (fun e => ((e.2 : Nat) : α))) ∧
    (run alpha h).step = keys.length := by
  intro h
  have := Lerax.C19.log_history alpha h
  refine ⟨this.1, this.2.1, ?_⟩
  rw [this.2.2]
  exact signals_length E mask clip P γ st keys

end

/-! ### non-vacuity: a time-limited episode whose logged return excludes the bootstrap -/

instance : Keys Nat := ⟨fun k i => k + i⟩

/-- counts up, pays 1 per step, truncates at 2, never terminates; the critic says 10 everywhere -/
def qEnv : Env Nat Nat Nat ℚ Nat where
  initial _ := 0
  transition s _ _ := s + 1
  observation s _ := s
  reward _ _ _ _ := 1
  terminal _ _ := false
  truncate s := decide (2 ≤ s)

def qPolicy : Policy Unit Nat Nat Unit ℚ Nat where
  actionAndValue _ _ _ _ := ((), 0, 10, 0)
  evaluate _ _ _ _ := (10, 0)
  value _ _ := 10
  reset _ := ()

example :
    (signals qEnv (fun _ _ => none) id qPolicy (1 : ℚ) ⟨0, ()⟩ [1, 2, 3, 4]) =
      [(1, false), (1, true), (1, false), (1, true)] ∧
    ((collectRollout qEnv (fun _ _ => none) id qPolicy (1 : ℚ) ⟨0, ()⟩ [1, 2, 3, 4]).2.map (·.reward)) =
      [1, 11, 1, 11] ∧
    (run (1 / 2 : ℚ) (signals qEnv (fun _ _ => none) id qPolicy (1 : ℚ) ⟨0, ()⟩ [1, 2, 3, 4])).averageReturn = 3 / 2 := by
  decide +kernel

end Lerax.PipelineLog
