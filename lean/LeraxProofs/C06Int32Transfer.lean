/-
  C06 stated directly for the int32-counter model: the corollaries of `int32_refines`
  (LeraxProofs/C06Int32.lean) and the `Nat`-model theorems of LeraxProofs/C06.lean.
-/
import LeraxProofs.C06
import LeraxProofs.C06Int32

namespace Lerax.C06
open Lerax.Replay

variable {ρ : Type}

/-- **C06 for the 32-bit counter.**  After any fewer-than-2^31 insertions (any number of
    wrap-arounds of the ring) into a buffer of capacity `C > 0`, the stored transitions read
    through the int32 state are exactly the most recent `min(n, C)` rows, oldest first. -/
theorem contents32_lastN (C : Nat) (hC : 0 < C) (rows : List ρ) (h : rows.length < 2 ^ 31) :
    contents (abs32 (rows.foldl add32 (empty32 C))) = rows.drop (rows.length - C) := by
  rw [(int32_refines C rows h).1]; exact contents_lastN C hC rows

/-- the signed validity mask marks slot `j` iff slot `j` holds a written row -/
theorem valid32_iff_written (C : Nat) (hC : 0 < C) (rows : List ρ) (h : rows.length < 2 ^ 31)
    (j : Nat) (hj : j < C) :
    let b := rows.foldl add32 (empty32 C)
    ((validMask32 b)[j]? = some true ↔ ∃ r, b.slots[j]? = some (some r)) := by
  intro b
  have hr := int32_refines C rows h
  have hv := (valid_iff_written C hC rows j hj).2
  have hs : b.slots = (rows.foldl add (empty C)).slots := by
    have := congrArg Buf.slots hr.1; simpa [abs32] using this
  rw [hr.2, hs]; exact hv

end Lerax.C06
