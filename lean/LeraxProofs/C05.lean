/-
  C05 — Off-policy collection stores exactly the transitions that happened.
-/
import LeraxModel.OffPolicy
import LeraxProofs.C06

namespace Lerax.C05
open Lerax.Env Lerax.Replay Lerax.OffPolicy

set_option linter.unusedSectionVars false

variable {S A O K PS α : Type} [Keys K]
variable (E : Env S A O α K) (clip : A → A) (P : Policy PS O A K)

/-- **Every stored transition is what happened**: the observation acted on, the action chosen,
    the reward and the *pre-reset* successor observation the environment produced for the
    executed (clipped) action, done = terminal ∨ truncated, timeout raised exactly when the
    episode was truncated without terminating, and the policy states before/after. -/
theorem stored_transition_faithful (env : S) (ps : PS) (key : K) :
    let row := (stepRow E clip P env ps key).2.2
    let obs := E.observation env (sub key 2)
    let a := (P.act ps obs (sub key 0)).2
    let next := E.transition env (clip a) (sub key 1)
    row.observation = obs ∧ row.action = a ∧
    row.reward = E.reward env (clip a) next (sub key 3) ∧
    row.nextObservation = E.observation next (sub key 5) ∧
    row.done = (E.terminal next (sub key 4) || E.truncate next) ∧
    (row.timeout = true ↔ (E.truncate next = true ∧ E.terminal next (sub key 4) = false)) ∧
    row.policyState = ps ∧ row.nextPolicyState = (P.act ps obs (sub key 0)).1 := by
  simp [stepRow]

/-- **The environment and policy state restart after a done step**, otherwise they continue. -/
theorem post_done_fresh (env : S) (ps : PS) (key : K) :
    let out := stepRow E clip P env ps key
    (out.2.2.done = true → out.1 = E.initial (sub key 6) ∧ out.2.1 = P.reset (sub key 7)) ∧
    (out.2.2.done = false →
      out.1 = E.transition env (clip out.2.2.action) (sub key 1) ∧ out.2.1 = out.2.2.nextPolicyState) := by
  simp only [stepRow]
  constructor <;> intro h <;> simp_all

/-- one step inserts exactly one transition into that environment's own buffer -/
theorem offStep_buffer (st : StepState S PS O A α) (key : K) :
    (offStep E clip P st key).buffer = add st.buffer (stepRow E clip P st.env st.policy key).2.2 := by
  simp [offStep]

/-- the buffer after a collection is the old buffer with the produced rows inserted in order -/
theorem collect_buffer (st : StepState S PS O A α) (keys : List K) :
    (collect E clip P st keys).buffer =
      (producedRows E clip P st.env st.policy keys).foldl add st.buffer := by
  induction keys generalizing st with
  | nil => rfl
  | cons k ks ih =>
      simp only [collect, List.foldl_cons] at ih ⊢
      rw [ih]
      simp [offStep, producedRows]

theorem producedRows_length (env : S) (ps : PS) (keys : List K) :
    (producedRows E clip P env ps keys).length = keys.length := by
  induction keys generalizing env ps with
  | nil => rfl
  | cons k ks ih => simp [producedRows, ih]

theorem foldl_add_pos {ρ : Type} (b : Buf ρ) (rows : List ρ) :
    (rows.foldl add b).pos = b.pos + rows.length := by
  induction rows generalizing b with
  | nil => rfl
  | cons r rs ih => simp [ih, add]; omega

/-- **Warm-up stores exactly `learning_starts` transitions** in an environment's buffer before
    the first update … -/
theorem warmup_count (cap : Nat) (key : K) (warmKeys : List K) :
    (collect E clip P (initialState E P cap key) warmKeys).buffer.pos = warmKeys.length := by
  rw [collect_buffer, foldl_add_pos, producedRows_length]
  simp [initialState, empty]

/-- … **and every iteration adds `num_steps`**: after warm-up and any list of iterations the
    insertion count is `learning_starts + Σ num_steps` (so `learning_starts + k · num_steps`). -/
theorem iteration_count_growth (cap : Nat) (key : K) (warmKeys : List K) (iters : List (List K)) :
    (iters.foldl (collect E clip P) (collect E clip P (initialState E P cap key) warmKeys)).buffer.pos
      = warmKeys.length + (iters.map List.length).sum := by
  suffices ∀ st : StepState S PS O A α,
      (iters.foldl (collect E clip P) st).buffer.pos = st.buffer.pos + (iters.map List.length).sum by
    rw [this, warmup_count]
  induction iters with
  | nil => intro st; simp
  | cons ks rest ih =>
      intro st
      rw [List.foldl_cons, ih, collect_buffer, foldl_add_pos, producedRows_length]
      simp; omega

/-- **What the buffer then holds** (composition with C06): after collecting from an empty buffer
    of capacity `C > 0`, the buffer contains exactly the most recent `min(n, C)` transitions that
    happened, oldest first. -/
theorem buffer_holds_recent_transitions (C : Nat) (hC : 0 < C) (key : K) (keys : List K) :
    let st0 := initialState E P C key
    contents (collect E clip P st0 keys).buffer =
      (producedRows E clip P st0.env st0.policy keys).drop
        ((producedRows E clip P st0.env st0.policy keys).length - C) := by
  simp only []
  rw [collect_buffer]
  exact Lerax.C06.contents_lastN C hC _

/-! ### non-vacuity -/

instance : Keys Nat := ⟨fun k i => k + i⟩

def toyEnv : Env Nat Nat Nat Int Nat where
  initial _ := 0
  transition s _ _ := s + 1
  observation s _ := s
  reward _ a _ _ := a
  terminal s _ := decide (3 ≤ s)
  truncate s := decide (2 ≤ s)

def toyPolicy : Policy Nat Nat Nat Nat := { act := fun ps o _ => (ps + 1, o + 5), reset := fun _ => 0 }

example : ((collect toyEnv (fun a => min a 6) toyPolicy (initialState toyEnv toyPolicy 2 0) [1, 2, 3]).buffer.pos = 3) ∧
    (stepRow toyEnv (fun a => min a 6) toyPolicy 1 0 0).2.2.timeout = true ∧
    (stepRow toyEnv (fun a => min a 6) toyPolicy 2 0 0).2.2.timeout = false ∧
    (stepRow toyEnv (fun a => min a 6) toyPolicy 2 0 0).2.2.reward = 6 := by decide

end Lerax.C05
