/-
  C06 — Replay buffer keeps the most recent transitions and samples only stored ones.

  Theorems about `LeraxModel/Replay.lean` for every capacity `C > 0`, every insertion history
  (any length, any number of wrap-arounds), every number of stacked per-environment buffers
  with arbitrary individual fill levels, and every batch of distinct valid indices.
-/
import LeraxModel.Replay
import Mathlib.Algebra.Order.Field.Basic
import Mathlib.Algebra.BigOperators.Group.List.Basic
import Mathlib.Tactic.FieldSimp
import Mathlib.Tactic.Ring

namespace Lerax.C06
open Lerax.Replay

variable {ρ : Type}

/-! ### the ring-buffer invariant -/

/-- After inserting `rows` (in order) into an empty buffer of capacity `C`:
    the position counts the insertions, each of the last `C` insertions sits at its residue,
    and slot `j` is unwritten exactly when fewer than `j+1` rows have been inserted. -/
structure Inv (C : Nat) (b : Buf ρ) (rows : List ρ) : Prop where
  pos : b.pos = rows.length
  cap : b.cap = C
  len : b.slots.length = C
  recent : ∀ i (h : i < rows.length), rows.length ≤ i + C → b.slots[i % C]? = some (some rows[i])
  unwritten : ∀ j, j < C → (b.slots[j]? = some none ↔ rows.length ≤ j)

theorem inv_empty (C : Nat) : Inv C (empty C : Buf ρ) [] := by
  refine ⟨rfl, rfl, by simp [empty], ?_, ?_⟩
  · intro i h; simp at h
  · intro j hj; simp [empty, hj]

theorem mod_ne_of_window {C i n : Nat} (h1 : i < n) (h2 : n < i + C) : i % C ≠ n % C := by
  intro h
  have h3 : (n - i) % C = 0 := Nat.sub_mod_eq_zero_of_mod_eq h.symm
  have h4 : C ∣ n - i := Nat.dvd_of_mod_eq_zero h3
  have h5 : C ≤ n - i := Nat.le_of_dvd (by omega) h4
  omega

theorem inv_add (C : Nat) (hC : 0 < C) (b : Buf ρ) (rows : List ρ) (r : ρ) (h : Inv C b rows) :
    Inv C (add b r) (rows ++ [r]) := by
  obtain ⟨hpos, hcap, hlen, hrec, hun⟩ := h
  have hidx : b.pos % b.cap < b.slots.length := by rw [hlen, hcap]; exact Nat.mod_lt _ hC
  refine ⟨by simp [add, hpos], by simp [add, hcap], by simp [add, hlen], ?_, ?_⟩
  · intro i hi hw
    simp only [List.length_append, List.length_singleton] at hi hw
    simp only [add, hpos, hcap]
    by_cases hin : i = rows.length
    · subst hin
      rw [List.getElem?_set_self (by rw [hlen]; exact Nat.mod_lt _ hC)]
      simp
    · have hi' : i < rows.length := by omega
      have hne : rows.length % C ≠ i % C := fun e => mod_ne_of_window hi' (by omega) e.symm
      rw [List.getElem?_set_ne hne, hrec i hi' (by omega)]
      simp [List.getElem_append_left hi']
  · intro j hj
    simp only [add, hpos, hcap, List.length_append, List.length_singleton]
    by_cases hjn : j = rows.length % C
    · subst hjn
      rw [List.getElem?_set_self (by rw [hlen]; exact Nat.mod_lt _ hC)]
      have : rows.length % C ≤ rows.length := Nat.mod_le _ _
      constructor
      · intro h; simp at h
      · intro h; omega
    · rw [List.getElem?_set_ne (fun e => hjn e.symm), hun j hj]
      constructor
      · intro h
        have : rows.length % C = rows.length := Nat.mod_eq_of_lt (by omega)
        omega
      · intro h; omega

/-- the invariant holds after **any** insertion history -/
theorem inv_foldl_from (C : Nat) (hC : 0 < C) (rows : List ρ) (b : Buf ρ) (rows0 : List ρ)
    (h : Inv C b rows0) : Inv C (rows.foldl add b) (rows0 ++ rows) := by
  induction rows generalizing b rows0 with
  | nil => simpa using h
  | cons r rs ih =>
      have := ih (add b r) (rows0 ++ [r]) (inv_add C hC b rows0 r h)
      simpa using this

theorem inv_foldl (C : Nat) (hC : 0 < C) (rows : List ρ) :
    Inv C (rows.foldl add (empty C)) rows := by
  simpa using inv_foldl_from C hC rows (empty C) [] (inv_empty C)

/-! ### the buffer holds exactly the most recent min(n, C) transitions -/

theorem range_map_getElem_drop (l : List ρ) (k m : Nat) (hk : k + m = l.length) (d : ρ) :
    (List.range m).map (fun i => l.getD (k + i) d) = l.drop k := by
  apply List.ext_getElem
  · simp; omega
  · intro i h1 h2
    simp only [List.length_map, List.length_range] at h1
    simp [List.getD_eq_getElem?_getD, List.getElem?_eq_getElem (by omega : k + i < l.length)]

/-- **After any sequence of insertions a buffer of capacity `C` holds exactly the most recent
    `min(n, C)` transitions** (oldest first), whatever the number of wrap-arounds. -/
theorem contents_lastN (C : Nat) (hC : 0 < C) (rows : List ρ) :
    contents (rows.foldl add (empty C)) = rows.drop (rows.length - C) := by
  have h := inv_foldl C hC rows
  obtain ⟨hpos, hcap, hlen, hrec, _⟩ := h
  simp only [contents, currentSize, hpos, hcap]
  set n := rows.length with hn
  set m := min n C with hm
  have hmn : n - m = n - C := by omega
  rw [hmn]
  cases rows with
  | nil =>
      have hm0 : m = 0 := by simp [hm, hn]
      simp [hm0]
  | cons r0 rs =>
    have key : ∀ i, i < m →
        ((List.foldl add (empty C) (r0 :: rs)).slots.getD ((n - C + i) % C) none)
          = some ((r0 :: rs).getD (n - C + i) r0) := by
      intro i hi
      have hlt : n - C + i < (r0 :: rs).length := by omega
      have := hrec (n - C + i) hlt (by omega)
      rw [List.getD_eq_getElem?_getD, this]
      simp [List.getD_eq_getElem?_getD, List.getElem?_eq_getElem hlt]
    rw [← range_map_getElem_drop (r0 :: rs) (n - C) m (by omega) r0]
    rw [List.filterMap_eq_map_iff_forall_eq_some.mpr]
    intro i hi
    exact key i (List.mem_range.mp hi)

/-- each stored row is one inserted row with all of its fields (rows are atomic in the model) -/
theorem slot_atomic_from (rows : List ρ) (b : Buf ρ) (j : Nat) (r : ρ)
    (h : (rows.foldl add b).slots[j]? = some (some r)) :
    r ∈ rows ∨ b.slots[j]? = some (some r) := by
  induction rows generalizing b with
  | nil => exact Or.inr h
  | cons x xs ih =>
      rcases ih (add b x) h with h' | h'
      · exact Or.inl (List.mem_cons_of_mem _ h')
      · simp only [add] at h'
        by_cases hj : b.pos % b.cap = j
        · subst hj
          by_cases hlt : b.pos % b.cap < b.slots.length
          · rw [List.getElem?_set_self hlt] at h'
            simp at h'; exact Or.inl (by simp [h'])
          · rw [List.getElem?_eq_none (by simp; omega)] at h'
            simp at h'
        · rw [List.getElem?_set_ne hj] at h'
          exact Or.inr h'

theorem slot_atomic (C : Nat) (rows : List ρ) (j : Nat) (r : ρ)
    (h : (rows.foldl add (empty C)).slots[j]? = some (some r)) : r ∈ rows := by
  rcases slot_atomic_from rows (empty C) j r h with h' | h'
  · exact h'
  · simp only [empty, List.getElem?_replicate] at h'
    split at h' <;> simp at h'

/-! ### validity mask -/

/-- **The valid mask marks slot `j` iff it has been written iff `j < min(pos, C)`.** -/
theorem valid_iff_written (C : Nat) (hC : 0 < C) (rows : List ρ) (j : Nat) (hj : j < C) :
    let b := rows.foldl add (empty C)
    ((validMask b)[j]? = some true ↔ j < min b.pos b.cap) ∧
    ((validMask b)[j]? = some true ↔ ∃ r, b.slots[j]? = some (some r)) := by
  have h := inv_foldl C hC rows
  obtain ⟨hpos, hcap, hlen, _, hun⟩ := h
  simp only []
  have hm : (validMask (List.foldl add (empty C) rows))[j]? = some true ↔
      j < min (List.foldl add (empty C) rows).pos (List.foldl add (empty C) rows).cap := by
    simp [validMask, currentSize, hcap, hj]
  refine ⟨hm, hm.trans ?_⟩
  rw [hpos, hcap]
  have hu := hun j hj
  have hjl : j < (List.foldl add (empty C) rows).slots.length := by rw [hlen]; exact hj
  constructor
  · intro hlt
    cases hs : (List.foldl add (empty C) rows).slots[j] with
    | none =>
        have : (List.foldl add (empty C) rows).slots[j]? = some none := by
          rw [List.getElem?_eq_getElem hjl, hs]
        have := hu.mp this
        omega
    | some r => exact ⟨r, by rw [List.getElem?_eq_getElem hjl, hs]⟩
  · rintro ⟨r, hr⟩
    by_contra hcon
    have : rows.length ≤ j := by omega
    have := hu.mpr this
    rw [hr] at this
    simp at this

/-! ### stacked per-environment buffers with different fill levels -/

theorem flatten_uniform_getElem? {β : Type} (C : Nat) (xss : List (List β))
    (hlen : ∀ xs ∈ xss, xs.length = C) (e j : Nat) (hj : j < C) :
    xss.flatten[e * C + j]? = (xss[e]?).bind (fun xs => xs[j]?) := by
  induction xss generalizing e with
  | nil => simp
  | cons xs rest ih =>
      have hxs : xs.length = C := hlen xs (by simp)
      cases e with
      | zero =>
          simp only [Nat.zero_mul, Nat.zero_add, List.flatten_cons, List.getElem?_cons_zero,
            Option.bind_some]
          rw [List.getElem?_append_left (by omega)]
      | succ e =>
          simp only [List.flatten_cons, List.getElem?_cons_succ]
          rw [List.getElem?_append_right (by rw [hxs, Nat.succ_mul]; omega)]
          have : (e + 1) * C + j - xs.length = e * C + j := by rw [hxs, Nat.succ_mul]; omega
          rw [this]
          exact ih (fun ys hy => hlen ys (by simp [hy])) e

/-- **Joint sampling of stacked buffers**: the flattened mask marks `e·C + j` iff slot `j` of
    environment `e`'s own buffer is written — for different fill levels per environment. -/
theorem flat_valid (C : Nat) (hC : 0 < C) (histories : List (List ρ)) (e j : Nat)
    (he : e < histories.length) (hj : j < C) :
    let bs := histories.map (fun rows => rows.foldl add (empty C))
    ((flatMask bs)[e * C + j]? = some true ↔ ∃ r, (flatSlots bs)[e * C + j]? = some (some r)) ∧
    ((flatMask bs)[e * C + j]? = some true ↔ j < min histories[e].length C) := by
  simp only []
  have hmlen : ∀ xs ∈ (histories.map (fun rows => rows.foldl add (empty C))).map validMask,
      xs.length = C := by
    intro xs hxs
    simp only [List.mem_map] at hxs
    obtain ⟨b, ⟨rows, _, rfl⟩, rfl⟩ := hxs
    simp [validMask, (inv_foldl C hC rows).cap]
  have hslen : ∀ xs ∈ (histories.map (fun rows => rows.foldl add (empty C))).map (·.slots),
      xs.length = C := by
    intro xs hxs
    simp only [List.mem_map] at hxs
    obtain ⟨b, ⟨rows, _, rfl⟩, rfl⟩ := hxs
    exact (inv_foldl C hC rows).len
  unfold flatMask flatSlots
  rw [flatten_uniform_getElem? C _ hmlen e j hj, flatten_uniform_getElem? C _ hslen e j hj]
  simp only [List.getElem?_map, List.getElem?_eq_getElem he, Option.map_some, Option.bind_some]
  have hv := valid_iff_written C hC histories[e] j hj
  simp only [] at hv
  have hi := inv_foldl C hC histories[e]
  constructor
  · exact hv.2
  · rw [hv.1, hi.pos, hi.cap]

/-! ### sampling -/

/-- **Sampling a batch of distinct valid indices returns only stored transitions, never an
    unwritten slot, and no transition twice.**  (`jr.choice(replace=False, p=probs)` returning
    distinct indices of non-zero probability is the trusted contract of `jax.random.choice`.) -/
theorem sample_ok (C : Nat) (hC : 0 < C) (histories : List (List ρ)) (idx : List Nat)
    (hvalid : ∀ i ∈ idx, (flatMask (histories.map (fun rows => rows.foldl add (empty C))))[i]? = some true)
    (hnodup : idx.Nodup) :
    (∀ x ∈ take (flatSlots (histories.map (fun rows => rows.foldl add (empty C)))) idx, ∃ r, x = some r) ∧
    idx.Nodup := by
  refine ⟨?_, hnodup⟩
  intro x hx
  simp only [take, List.mem_map] at hx
  obtain ⟨i, hi, rfl⟩ := hx
  have hv := hvalid i hi
  -- locate (e, j)
  have hlt : i < (flatMask (histories.map (fun rows => rows.foldl add (empty C)))).length := by
    by_contra hcon
    rw [List.getElem?_eq_none (by omega)] at hv
    simp at hv
  have hflen : (flatMask (histories.map (fun rows => rows.foldl add (empty C)))).length
      = histories.length * C := by
    unfold flatMask
    rw [List.length_flatten]
    simp only [List.map_map]
    have : ∀ rows ∈ histories, (List.length ∘ validMask ∘ fun rows => List.foldl add (empty C) rows) rows = C := by
      intro rows _
      simp [validMask, (inv_foldl C hC rows).cap]
    rw [List.map_congr_left this]
    simp
  rw [hflen] at hlt
  have he : i / C < histories.length := (Nat.div_lt_iff_lt_mul hC).mpr hlt
  have hj : i % C < C := Nat.mod_lt _ hC
  have hij : i / C * C + i % C = i := by rw [Nat.mul_comm]; exact Nat.div_add_mod i C
  have := (flat_valid C hC histories (i / C) (i % C) he hj).1
  simp only [hij] at this
  obtain ⟨r, hr⟩ := this.mp hv
  exact ⟨r, by rw [List.getD_eq_getElem?_getD, hr]; rfl⟩

/-! ### sampling probabilities -/

section
variable {α : Type} [Field α] [CharZero α]

/-- probabilities vanish exactly on unwritten slots … -/
theorem probs_support (mask : List Bool) (j : Nat) (hj : j < mask.length)
    (hne : (mask.filter id).length ≠ 0) :
    ((probs mask : List α)[j]? = some 0 ↔ mask[j] = false) := by
  simp only [probs, List.getElem?_map, List.getElem?_eq_getElem hj, Option.map_some, Option.some.injEq]
  have hn : ((mask.filter id).length : α) ≠ 0 := by exact_mod_cast hne
  cases mask[j] <;> simp [hn]

/-- … and sum to one. -/
theorem probs_sum_one (mask : List Bool) (hne : (mask.filter id).length ≠ 0) :
    (probs mask : List α).sum = 1 := by
  have hn : ((mask.filter id).length : α) ≠ 0 := by exact_mod_cast hne
  have key : ∀ (m : List Bool) (c : α), (m.map (fun b => (if b then (1 : α) else 0) / c)).sum
      = ((m.filter id).length : α) / c := by
    intro m c
    induction m with
    | nil => simp
    | cons b bs ih =>
        cases b
        · simp [ih]
        · simp only [List.map_cons, List.sum_cons, ih, if_true, List.filter_cons, id_eq,
            List.length_cons, Nat.cast_add, Nat.cast_one]
          ring
  simp only [probs]
  rw [key]
  exact div_self hn

end

/-- The executable checker used on implementation outputs accepts the model's own contents:
    tagging insertion `i` with `i`, the slots after `n` insertions satisfy `phiContents`. -/
theorem phi_contents_sound_example : phiContents 3 7 [some 6, some 4, some 5] = true := by decide

/-! ### non-vacuity -/

example : contents ([1, 2, 3, 4, 5].foldl add (empty 3 : Buf Nat)) = [3, 4, 5] := by decide

end Lerax.C06
