/-
  C08 — On-policy losses equal the published objectives (PPO clip, A2C, REINFORCE).
-/
import LeraxModel.Loss
import Mathlib.Algebra.Order.Field.Basic
import Mathlib.Tactic.Ring
import Mathlib.Tactic.Linarith
import Mathlib.Tactic.FieldSimp
import Mathlib.Analysis.Calculus.Deriv.Basic

namespace Lerax.C08
open Lerax.Loss

set_option linter.unusedSectionVars false

variable {α : Type} [Field α] [LinearOrder α] [IsStrictOrderedRing α]

/-! ### helper lemmas: the model's `minA/maxA/clipA/mean` are `min/max/clamp/average` -/

theorem minA_eq (a b : α) : minA a b = min a b := by
  unfold minA; split
  · rename_i h; exact (min_eq_right (le_of_lt h)).symm
  · rename_i h; exact (min_eq_left (not_lt.mp h)).symm

theorem maxA_eq (a b : α) : maxA a b = max a b := by
  unfold maxA; split
  · rename_i h; exact (max_eq_right (le_of_lt h)).symm
  · rename_i h; exact (max_eq_left (not_lt.mp h)).symm

theorem clipA_eq (lo hi x : α) : clipA lo hi x = min (max x lo) hi := by
  simp [clipA, minA_eq, maxA_eq]

theorem foldl_add_eq_sum (xs : List α) (c : α) : xs.foldl (· + ·) c = c + xs.sum := by
  induction xs generalizing c with
  | nil => simp
  | cons x xs ih => simp [ih, add_assoc]

theorem mean_eq (xs : List α) : mean xs = xs.sum / xs.length := by
  simp [mean, foldl_add_eq_sum]

/-! ### published objectives (specification) -/

/-- clipped surrogate of one sample: `min(r·A, clip(r, 1−ε, 1+ε)·A)` -/
def clipObjective (ε r A : α) : α := min (r * A) (min (max r (1 - ε)) (1 + ε) * A)

/-- **PPO policy loss = `−E[min(r·A, clip(r,1−ε,1+ε)·A)]`** with `r = exp(logπ_new − logπ_old)`
    and `A` the (optionally normalised) advantages. -/
theorem ppo_policy_loss_eq_clip_objective (exp sqrt : α → α) (cfg : Cfg α) (b : List (Sample α)) :
    (ppoLoss exp sqrt cfg b).policyLoss =
      - ((List.zipWith (fun A r => clipObjective cfg.clipCoef r A) (advantages sqrt cfg b)
          (b.map (fun s => exp (s.logpNew - s.logpOld)))).sum / ((advantages sqrt cfg b).zipWith
            (fun A r => clipObjective cfg.clipCoef r A) (b.map (fun s => exp (s.logpNew - s.logpOld)))).length) := by
  simp only [ppoLoss, mean_eq, List.map_map]
  congr 2
  · have hf : (surrogate cfg.clipCoef : α → α → α) = fun A r => clipObjective cfg.clipCoef r A := by
      funext A r
      simp [surrogate, clipObjective, minA_eq, clipA_eq, mul_comm]
    rw [hf]; rfl
  · simp

/-- **Unclipped value loss = half the mean squared value error.** -/
theorem ppo_value_loss_unclipped (exp sqrt : α → α) (cfg : Cfg α) (b : List (Sample α))
    (h : cfg.clipValue = false) :
    (ppoLoss exp sqrt cfg b).valueLoss = (b.map (fun s => (s.vNew - s.ret) ^ 2)).sum / b.length / 2 := by
  simp [ppoLoss, mean_eq, valueErr, h, Loss.sq, pow_two]

/-- **With value clipping on, the loss is the LARGER of the clipped and unclipped errors (PPO2).** -/
theorem ppo_value_loss_clipped_is_max (exp sqrt : α → α) (cfg : Cfg α) (b : List (Sample α))
    (h : cfg.clipValue = true) :
    (ppoLoss exp sqrt cfg b).valueLoss =
      (b.map (fun s => max ((s.vNew - s.ret) ^ 2)
        ((s.vOld + min (max (s.vNew - s.vOld) (-cfg.clipCoef)) cfg.clipCoef - s.ret) ^ 2))).sum
        / b.length / 2 := by
  simp [ppoLoss, mean_eq, valueErr, h, Loss.sq, pow_two, maxA_eq, clipA_eq]

/-- the total is the weighted sum of the three terms -/
theorem total_is_weighted_sum (exp sqrt : α → α) (cfg : Cfg α) (b : List (Sample α)) :
    let o := ppoLoss exp sqrt cfg b
    o.loss = o.policyLoss + o.valueLoss * cfg.valueCoef + o.entropyLoss * cfg.entropyCoef ∧
    o.entropyLoss = - ((b.map (·.entropy)).sum / b.length) := by
  simp [ppoLoss, mean_eq]

/-! ### a sample whose ratio has left the clip interval in the favoured direction contributes
    no policy gradient -/

/-- For `A ≥ 0` the per-sample term is constant in the ratio on `[1+ε, ∞)`; for `A ≤ 0` it is
    constant on `(−∞, 1−ε]` (given `0 ≤ ε`). -/
theorem clipped_sample_constant (ε A r : α) (hε : 0 ≤ ε) :
    (0 ≤ A → 1 + ε ≤ r → surrogate ε A r = A * (1 + ε)) ∧
    (A ≤ 0 → r ≤ 1 - ε → surrogate ε A r = A * (1 - ε)) := by
  constructor
  · intro hA hr
    have h1 : max r (1 - ε) = r := max_eq_left (by linarith)
    have h2 : min r (1 + ε) = 1 + ε := min_eq_right hr
    simp only [surrogate, minA_eq, clipA_eq, h1, h2]
    exact min_eq_right (mul_le_mul_of_nonneg_left hr hA)
  · intro hA hr
    have h1 : max r (1 - ε) = 1 - ε := max_eq_right hr
    have h2 : min (1 - ε) (1 + ε) = 1 - ε := min_eq_left (by linarith)
    simp only [surrogate, minA_eq, clipA_eq, h1, h2]
    exact min_eq_right (mul_le_mul_of_nonpos_left hr hA)

/-- … hence its derivative with respect to the ratio (and so with respect to the new
    log-probability) vanishes in the interior of those regions. -/
theorem clipped_sample_no_gradient (ε A r : ℝ) (hε : 0 ≤ ε) :
    (0 ≤ A → 1 + ε < r → HasDerivAt (fun r => surrogate ε A r) 0 r) ∧
    (A ≤ 0 → r < 1 - ε → HasDerivAt (fun r => surrogate ε A r) 0 r) := by
  constructor
  · intro hA hr
    have hc : HasDerivAt (fun _ : ℝ => A * (1 + ε)) 0 r := hasDerivAt_const r _
    refine hc.congr_of_eventuallyEq ?_
    filter_upwards [lt_mem_nhds hr] with x hx
    exact (clipped_sample_constant ε A x hε).1 hA (le_of_lt hx)
  · intro hA hr
    have hc : HasDerivAt (fun _ : ℝ => A * (1 - ε)) 0 r := hasDerivAt_const r _
    refine hc.congr_of_eventuallyEq ?_
    filter_upwards [gt_mem_nhds hr] with x hx
    exact (clipped_sample_constant ε A x hε).2 hA (le_of_lt hx)

/-- the model's per-sample partial `dPolicy` is zero exactly there -/
theorem dPolicy_zero_when_clipped (ε A r : α) (n : Nat) (hε : 0 ≤ ε) :
    (0 ≤ A → 1 + ε < r → dPolicy ε A r n = 0) ∧ (A ≤ 0 → r < 1 - ε → dPolicy ε A r n = 0) := by
  constructor
  · intro hA hr
    have hc : clipA (1 - ε) (1 + ε) r = 1 + ε := by
      rw [clipA_eq, max_eq_left (by linarith), min_eq_right (le_of_lt hr)]
    have h3 : ¬ (A * r < A * (1 + ε)) := not_lt.mpr (mul_le_mul_of_nonneg_left (le_of_lt hr) hA)
    simp [dPolicy, hr, hc, h3]
  · intro hA hr
    have hc : clipA (1 - ε) (1 + ε) r = 1 - ε := by
      rw [clipA_eq, max_eq_right (le_of_lt hr), min_eq_left (by linarith)]
    have h3 : ¬ (A * r < A * (1 - ε)) := not_lt.mpr (mul_le_mul_of_nonpos_left (le_of_lt hr) hA)
    simp [dPolicy, hr, hc, h3]

/-! ### on data collected by the current policy every ratio is 1 and the approximate KL is 0 -/

theorem sum_replicate_one (n : Nat) : (List.replicate n (1 : α)).sum = n := by
  induction n with
  | zero => simp
  | succ n ih => simp [List.replicate_succ, ih]; ring

/-- **On-policy data**: if the new log-probs equal the stored ones then every ratio is 1, the
    approximate KL is 0 and the policy loss is `−mean(A)` (uses only `exp 0 = 1`, `0 ≤ ε`). -/
theorem on_policy_ratio_one (exp sqrt : α → α) (hexp : exp 0 = 1) (cfg : Cfg α) (hε : 0 ≤ cfg.clipCoef)
    (b : List (Sample α)) (hne : b ≠ []) (hsame : ∀ s ∈ b, s.logpNew = s.logpOld) :
    (∀ s ∈ b, exp (s.logpNew - s.logpOld) = 1) ∧
    (ppoLoss exp sqrt cfg b).approxKl = 0 ∧
    (ppoLoss exp sqrt cfg b).policyLoss = - mean (advantages sqrt cfg b) := by
  have hr : ∀ s ∈ b, exp (s.logpNew - s.logpOld) = 1 := by
    intro s hs; rw [hsame s hs, sub_self, hexp]
  have hlog : b.map (fun s => s.logpNew - s.logpOld) = List.replicate b.length 0 := by
    apply List.ext_getElem (by simp)
    intro i h1 h2
    simp only [List.getElem_map, List.getElem_replicate]
    rw [hsame _ (List.getElem_mem _), sub_self]
  have hlen : (b.length : α) ≠ 0 := by
    have : b.length ≠ 0 := by simpa using hne
    exact_mod_cast this
  refine ⟨hr, ?_, ?_⟩
  · simp only [ppoLoss, hlog, List.map_replicate, hexp, mean_eq]
    have : List.zipWith (fun r l : α => r - l) (List.replicate b.length 1) (List.replicate b.length 0)
        = List.replicate b.length 1 := by
      apply List.ext_getElem (by simp)
      intro i h1 h2; simp
    rw [this, sum_replicate_one]
    simp [hlen]
  · simp only [ppoLoss, hlog, List.map_replicate, hexp]
    congr 1
    have hadv : (advantages sqrt cfg b).length = b.length := by
      unfold advantages normalizeAdv; split <;> simp
    have : List.zipWith (surrogate cfg.clipCoef) (advantages sqrt cfg b) (List.replicate b.length (1 : α))
        = advantages sqrt cfg b := by
      apply List.ext_getElem (by simp [hadv])
      intro i h1 h2
      simp only [List.getElem_zipWith, List.getElem_replicate, surrogate, minA_eq, clipA_eq]
      have h1' : max (1 : α) (1 - cfg.clipCoef) = 1 := max_eq_left (by linarith)
      have h2' : min (1 : α) (1 + cfg.clipCoef) = 1 := min_eq_left (by linarith)
      rw [h1', h2', mul_one, min_self]
    rw [this]

/-! ### advantage normalisation -/

theorem sum_map_sub_const (xs : List α) (c : α) : (xs.map (fun a => a - c)).sum = xs.sum - xs.length * c := by
  induction xs with
  | nil => simp
  | cons x xs ih => simp [ih]; ring

theorem sum_map_div_const (xs : List α) (c : α) : (xs.map (fun a => a / c)).sum = xs.sum / c := by
  induction xs with
  | nil => simp
  | cons x xs ih => simp [ih]; ring

/-- normalised advantages have mean zero -/
theorem normalised_mean_zero (sqrt : α → α) (eps : α) (adv : List α) (hne : adv ≠ []) :
    mean (normalizeAdv sqrt eps adv) = 0 := by
  have hlen : (adv.length : α) ≠ 0 := by
    have : adv.length ≠ 0 := by simpa using hne
    exact_mod_cast this
  simp only [normalizeAdv, mean_eq, List.length_map]
  have : (adv.map (fun a => (a - adv.sum / adv.length) /
      (sqrt ((adv.map (fun a => Loss.sq (a - adv.sum / adv.length))).sum / adv.length) + eps)))
      = (adv.map (fun a => a - adv.sum / adv.length)).map
        (fun a => a / (sqrt ((adv.map (fun a => Loss.sq (a - adv.sum / adv.length))).sum / adv.length) + eps)) := by
    simp [List.map_map, Function.comp]
  rw [this, sum_map_div_const, sum_map_sub_const]
  have : adv.sum - adv.length * (adv.sum / adv.length) = 0 := by field_simp; ring
  rw [this]; simp

/-! ### A2C and REINFORCE -/

/-- **A2C loss = `−E[log π · A] + c_v · E[(v−R)²]/2 − c_e · E[entropy]`.** -/
theorem a2c_eq_published (sqrt : α → α) (cfg : Cfg α) (b : List (Sample α)) :
    let o := a2cLoss sqrt cfg b
    o.policyLoss = - mean (List.zipWith (fun (s : Sample α) A => s.logpNew * A) b (advantages sqrt cfg b)) ∧
    o.valueLoss = (b.map (fun s => (s.vNew - s.ret) ^ 2)).sum / b.length / 2 ∧
    o.entropyLoss = - ((b.map (·.entropy)).sum / b.length) ∧
    o.loss = o.policyLoss + o.valueLoss * cfg.valueCoef + o.entropyLoss * cfg.entropyCoef := by
  simp [a2cLoss, mean_eq, Loss.sq, pow_two]

/-- **REINFORCE loss = `−E[log π · A] + c_v · E[(v−R)²]/2`.** -/
theorem reinforce_eq_published (sqrt : α → α) (cfg : Cfg α) (b : List (Sample α)) :
    let o := reinforceLoss sqrt cfg b
    o.policyLoss = - mean (List.zipWith (fun (s : Sample α) A => s.logpNew * A) b (advantages sqrt cfg b)) ∧
    o.valueLoss = (b.map (fun s => (s.vNew - s.ret) ^ 2)).sum / b.length / 2 ∧
    o.loss = o.policyLoss + o.valueLoss * cfg.valueCoef := by
  simp [reinforceLoss, mean_eq, Loss.sq, pow_two]

/-! ### global-norm clipping -/

theorem normSq_eq (g : List α) : normSq g = (g.map (fun x => x * x)).sum := by
  simp only [normSq, foldl_add_eq_sum, zero_add]
  rfl

theorem normSq_scale (g : List α) (c : α) : normSq (g.map (fun x => x * c)) = normSq g * (c * c) := by
  rw [normSq_eq, normSq_eq]
  induction g with
  | nil => simp
  | cons x xs ih => simp only [List.map_cons, List.sum_cons] at ih ⊢; rw [ih]; ring

/-- **Global-norm clipping**: the clipped gradient has norm at most `max_norm`, is a non-negative
    multiple of the gradient (direction preserved) and equals it when the norm is already
    below the threshold.  (`sqrt` is any function with `sqrt x ≥ 0` and `sqrt x · sqrt x = x`
    on `x ≥ 0`.) -/
theorem clip_global_norm_bound (sqrt : α → α) (hs : ∀ x, 0 ≤ x → 0 ≤ sqrt x ∧ sqrt x * sqrt x = x)
    (maxNorm : α) (hm : 0 ≤ maxNorm) (g : List α) :
    normSq (clipByGlobalNorm sqrt maxNorm g) ≤ maxNorm * maxNorm ∧
    (∃ c : α, 0 ≤ c ∧ clipByGlobalNorm sqrt maxNorm g = g.map (fun x => x * c)) ∧
    (sqrt (normSq g) < maxNorm → clipByGlobalNorm sqrt maxNorm g = g) := by
  have hnn : 0 ≤ normSq g := by
    rw [normSq_eq]
    exact List.sum_nonneg (by intro x hx; simp only [List.mem_map] at hx; obtain ⟨y, _, rfl⟩ := hx; exact mul_self_nonneg y)
  obtain ⟨hs0, hs2⟩ := hs (normSq g) hnn
  unfold clipByGlobalNorm
  simp only []
  by_cases hlt : sqrt (normSq g) < maxNorm
  · rw [if_pos hlt]
    refine ⟨?_, ⟨1, zero_le_one, by simp⟩, fun _ => rfl⟩
    rw [← hs2]
    exact mul_le_mul (le_of_lt hlt) (le_of_lt hlt) hs0 hm
  · rw [if_neg hlt]
    have hn : maxNorm ≤ sqrt (normSq g) := not_lt.mp hlt
    refine ⟨?_, ⟨maxNorm / sqrt (normSq g), div_nonneg hm hs0, ?_⟩, fun h => absurd h hlt⟩
    · by_cases hz : sqrt (normSq g) = 0
      · have : maxNorm = 0 := le_antisymm (hz ▸ hn) hm
        subst this
        have : g.map (fun x => x / sqrt (normSq g) * 0) = g.map (fun x => x * 0) := by simp
        rw [this, normSq_scale]; simp
      · have : g.map (fun x => x / sqrt (normSq g) * maxNorm) = g.map (fun x => x * (maxNorm / sqrt (normSq g))) := by
          apply List.map_congr_left; intro x _; field_simp
        rw [this, normSq_scale]
        have : normSq g * (maxNorm / sqrt (normSq g) * (maxNorm / sqrt (normSq g))) = maxNorm * maxNorm := by
          nth_rewrite 1 [← hs2]; field_simp
        rw [this]
    · apply List.map_congr_left; intro x _; ring

/-! ### non-vacuity -/

example : surrogate (1/5 : ℚ) 2 (3/2) = 2 * (6/5) ∧ surrogate (1/5 : ℚ) (-2) (1/2) = -2 * (4/5) := by
  norm_num [surrogate, minA, clipA, maxA]

example : valueErr true (1/5 : ℚ) 1 0 (-1) = 4 ∧ valueErr false (1/5 : ℚ) 1 0 (-1) = 4 ∧
    valueErr true (1/5 : ℚ) 1 0 2 = (2 - 1/5) ^ 2 := by
  norm_num [valueErr, maxA, clipA, minA, Loss.sq]

end Lerax.C08
