/-
  C02 for wrapper stacks: "for every built-in environment and every wrapper stack over one, the
  observation of every reachable state is a member of the DECLARED observation space, and members of the
  declared action space are accepted (mapped into the base environment's action space)".

  * `stack_obs_in_declared_space`: for every sound stack (each observation layer maps the space declared
    below it into the space it declares) over a base environment whose observations of the states in a set
    `Good` lie in its declared space, the wrapped environment's observations of every state that unwraps
    to a `Good` state lie in the space the STACK declares — any depth, any order of layers (in particular
    action wrappers above observation wrappers).
  * `stack_action_accepted`: a member of the declared action space reaches the base environment as a member
    of the base action space.
  * layer lemmas discharging `Sound` for the concrete wrappers: `clip_layer_sound` (ClipObservation /
    ClipAction), `rescale_obs_layer_sound`, `rescale_action_layer_sound`, `passthrough_layer_sound`.
  * `reachable_stays_good`: with `Good` closed under the base dynamics and containing the initial states,
    every state reachable through the wrapped environment's `reset` / `step` unwraps to a `Good` state, so the
    two theorems apply along every trajectory.
-/
import LeraxModel.Env
import LeraxProofs.C01
import LeraxProofs.C13

namespace Lerax.C02Stack
open Lerax.Env Lerax.Rescale

set_option linter.unusedSectionVars false

section stk
variable {S0 A0 O0 R K : Type} [Keys K]

/-- the observation of a wrapped state is the layers' maps applied to the base observation of the
    unwrapped state — and it lies in the declared space when the base observation does -/
theorem stack_obs_in_declared_space {S A O : Type} (st : SpacedStack S0 A0 O0 R S A O)
    (E : Env S0 A0 O0 R K) (baseObs : O0 → Prop) (baseAct : A0 → Prop) (Good : S0 → Prop)
    (hbase : ∀ s k, Good s → baseObs (E.observation s k))
    (hs : st.Sound baseObs baseAct) (s : S) (k : K) (hg : Good (st.toStack.unwrapState s)) :
    st.obsSpace baseObs ((st.toStack.denote E).observation s k) := by
  induction st with
  | base => exact hbase s k hg
  | identity st ih => exact ih hs s hg
  | timeLimit n st ih => exact ih hs s.1 hg
  | mapAction f actP st ih => exact ih hs.2 s hg
  | mapObs g obsP st ih => exact hs.1 _ (ih hs.2 s hg)
  | mapReward h st ih => exact ih hs s hg

/-- what the base environment is driven with when the wrapped environment receives action `a` -/
def baseAction {S A O : Type} : SpacedStack S0 A0 O0 R S A O → A → A0
  | .base, a => a
  | .identity st, a => baseAction st a
  | .timeLimit _ st, a => baseAction st a
  | .mapAction f _ st, a => baseAction st (f a)
  | .mapObs _ _ st, a => baseAction st a
  | .mapReward _ st, a => baseAction st a

/-- **Members of the declared action space are accepted**: they reach the base environment as members
    of its own action space, through every layer. -/
theorem stack_action_accepted {S A O : Type} (st : SpacedStack S0 A0 O0 R S A O)
    (baseObs : O0 → Prop) (baseAct : A0 → Prop) (hs : st.Sound baseObs baseAct) (a : A)
    (ha : st.actSpace baseAct a) : baseAct (baseAction st a) := by
  induction st with
  | base => exact ha
  | identity st ih => exact ih hs a ha
  | timeLimit n st ih => exact ih hs a ha
  | mapAction f actP st ih => exact ih hs.2 (f a) (hs.1 a ha)
  | mapObs g obsP st ih => exact ih hs.2 a ha
  | mapReward h st ih => exact ih hs a ha

/-- the wrapped transition unwraps to the base transition driven with `baseAction` -/
theorem unwrap_transition {S A O : Type} (st : SpacedStack S0 A0 O0 R S A O) (E : Env S0 A0 O0 R K)
    (s : S) (a : A) (k : K) :
    st.toStack.unwrapState ((st.toStack.denote E).transition s a k) =
      E.transition (st.toStack.unwrapState s) (baseAction st a) k := by
  induction st with
  | base => rfl
  | identity st ih => exact ih s a
  | timeLimit n st ih => exact ih s.1 a
  | mapAction f actP st ih => exact ih s (f a)
  | mapObs g obsP st ih => exact ih s a
  | mapReward h st ih => exact ih s a

theorem unwrap_initial {S A O : Type} (st : SpacedStack S0 A0 O0 R S A O) (E : Env S0 A0 O0 R K) (k : K) :
    st.toStack.unwrapState ((st.toStack.denote E).initial k) = E.initial k := by
  induction st with
  | base => rfl
  | identity st ih => exact ih
  | timeLimit n st ih => exact ih
  | mapAction f actP st ih => exact ih
  | mapObs g obsP st ih => exact ih
  | mapReward h st ih => exact ih

/-- **Along every trajectory.**  If `Good` contains the base initial states and is closed under base
    transitions with in-space actions, then the state returned by the wrapped `reset`, and by the wrapped
    `step` from a `Good` state with a declared-space action, unwraps to a `Good` state — so the returned
    observation is a member of the declared observation space (`stack_obs_in_declared_space`). -/
theorem reachable_stays_good {S A O : Type} (st : SpacedStack S0 A0 O0 R S A O) (E : Env S0 A0 O0 R K)
    (baseObs : O0 → Prop) (baseAct : A0 → Prop) (Good : S0 → Prop)
    (hinit : ∀ k, Good (E.initial k))
    (hstep : ∀ s a k, Good s → baseAct a → Good (E.transition s a k))
    (hs : st.Sound baseObs baseAct) :
    (∀ k, Good (st.toStack.unwrapState ((st.toStack.denote E).reset k).1)) ∧
    (∀ s a k, Good (st.toStack.unwrapState s) → st.actSpace baseAct a →
        Good (st.toStack.unwrapState ((st.toStack.denote E).step s a k).state)) := by
  constructor
  · intro k
    simp only [Env.reset]
    rw [unwrap_initial]; exact hinit _
  · intro s a k hg ha
    simp only [Env.step]
    split
    · rw [unwrap_initial]; exact hinit _
    · rw [unwrap_transition]
      exact hstep _ _ _ hg (stack_action_accepted st baseObs baseAct hs a ha)

/-- hence: the observation returned by the wrapped `step` is a member of the declared space -/
theorem step_obs_in_declared_space {S A O : Type} (st : SpacedStack S0 A0 O0 R S A O) (E : Env S0 A0 O0 R K)
    (baseObs : O0 → Prop) (baseAct : A0 → Prop) (Good : S0 → Prop)
    (hbase : ∀ s k, Good s → baseObs (E.observation s k))
    (hinit : ∀ k, Good (E.initial k))
    (hstep : ∀ s a k, Good s → baseAct a → Good (E.transition s a k))
    (hs : st.Sound baseObs baseAct) (s : S) (a : A) (k : K)
    (hg : Good (st.toStack.unwrapState s)) (ha : st.actSpace baseAct a) :
    st.obsSpace baseObs ((st.toStack.denote E).step s a k).observation := by
  have h := (reachable_stays_good st E baseObs baseAct Good hinit hstep hs).2 s a k hg ha
  simp only [Env.step] at h ⊢
  exact stack_obs_in_declared_space st E baseObs baseAct Good hbase hs _ _ h

end stk

/-! ### the concrete layers are sound -/

section layers
variable {α : Type} [Field α] [LinearOrder α] [IsStrictOrderedRing α]

/-- `ClipObservation` / `ClipAction` (one coordinate): whatever comes in, the clipped value is a member of
    `[lo, hi]` -/
theorem clip_layer_sound (lo hi : α) (h : lo ≤ hi) (P : α → Prop) :
    ∀ x, P x → (fun y => lo ≤ y ∧ y ≤ hi) (clip lo hi x) := by
  intro x _
  exact ⟨(Lerax.C13.clip_spec lo hi x h).1, (Lerax.C13.clip_spec lo hi x h).2.1⟩

/-- `RescaleObservation` (one coordinate, bounded box): members of `[low, high]` map into `[mn, mx]` -/
theorem rescale_obs_layer_sound (low high mn mx : α) (hb : low < high) (hm : mn < mx) :
    ∀ x, (low ≤ x ∧ x ≤ high) → (mn ≤ forward low high (some mn) (some mx) x ∧
                                  forward low high (some mn) (some mx) x ≤ mx) := by
  intro x ⟨h1, h2⟩
  obtain ⟨_, _, e3, e4⟩ := Lerax.C13.rescale_endpoints low high mn mx hb hm
  constructor
  · have := (Lerax.C13.rescale_monotone low high mn mx hb hm low x h1).1
    rwa [e3] at this
  · have := (Lerax.C13.rescale_monotone low high mn mx hb hm x high h2).1
    rwa [e4] at this

/-- `RescaleAction`: members of the advertised `[mn, mx]` reach the inner environment inside `[low, high]` -/
theorem rescale_action_layer_sound (low high mn mx : α) (hb : low < high) (hm : mn < mx) :
    ∀ y, (mn ≤ y ∧ y ≤ mx) → (low ≤ backward low high (some mn) (some mx) y ∧
                               backward low high (some mn) (some mx) y ≤ high) := by
  intro y ⟨h1, h2⟩
  exact Lerax.C13.rescale_maps_box_into_box low high mn mx hb hm y h1 h2

end layers

/-! ### non-vacuity: an action wrapper above an observation wrapper above a time limit -/

section example_
instance : Keys Nat := ⟨fun k i => k + i⟩

def toy : Env Nat Int Int Int Nat where
  initial _ := 0
  transition s a _ := (s + a.toNat) % 7
  observation s _ := (s : Int) - 3
  reward _ _ _ _ := 0
  terminal _ _ := false
  truncate _ := false

/-- ClipAction([-1,1]) ∘ RescaleObservation-like (o ↦ 2·o) ∘ TimeLimit(3) over `toy` -/
def toyStack : SpacedStack Nat Int Int Int (Nat × Nat) Int Int :=
  .mapAction (fun a => max (-1) (min 1 a)) (fun _ => True)
    (.mapObs (fun o => 2 * o) (fun o => -6 ≤ o ∧ o ≤ 6) (.timeLimit 3 .base))

example : toyStack.Sound (fun o => -3 ≤ o ∧ o ≤ 3) (fun a => -1 ≤ a ∧ a ≤ 1) := by
  refine ⟨?_, ?_, trivial⟩
  · intro a _; simp only [SpacedStack.actSpace]; omega
  · intro o h
    simp only [SpacedStack.obsSpace] at h
    show -6 ≤ 2 * o ∧ 2 * o ≤ 6
    omega

example : toyStack.obsSpace (fun o => -3 ≤ o ∧ o ≤ 3) ((toyStack.toStack.denote toy).observation (5, 2) 0) := by
  show -6 ≤ 2 * (((5 : Nat) : Int) - 3) ∧ 2 * (((5 : Nat) : Int) - 3) ≤ 6
  decide

end example_

end Lerax.C02Stack
