/-
  C17 (classic control) — lerax's CartPole, MountainCar, ContinuousMountainCar and Acrobot
  realise the Gymnasium reference MDPs: same vector field, same state limits, same reward on
  every transition (goal / terminal step included), same termination predicate, same
  initial-state range; CartPole under explicit Euler reproduces Gymnasium's update.

  `Lerax.Classic.*` is the model of lerax (`LeraxModel/Classic.lean`), `Lerax.GymRef.*` the
  transcription of Gymnasium 1.3.0 (`LeraxModel/GymRef.lean`).  All theorems are over an
  arbitrary linearly ordered field `α` (hence ℝ), for arbitrary functions `sin cos : α → α`
  (no trigonometric fact is needed for the equalities), all parameter values, all states and
  all actions of the action space.

  Also the two C02 bound theorems (`classic_obs_in_space`, `cartpole_obs_in_space_partial`).
-/
import LeraxModel.Classic
import LeraxModel.GymRef
import Mathlib.Algebra.Order.Field.Basic
import Mathlib.Tactic.FieldSimp
import Mathlib.Tactic.Ring
import Mathlib.Tactic.Linarith
import Mathlib.Tactic.NormNum
import Mathlib.Algebra.Order.Floor.Ring

namespace Lerax.C17
open Lerax.Classic Lerax.GymRef

set_option linter.unusedSectionVars false
set_option linter.unusedVariables false

variable {α : Type} [Field α] [LinearOrder α] [IsStrictOrderedRing α]

/-! ### parameter correspondence (lerax constructor arguments ↦ Gymnasium attributes) -/

def cartG (p : CartPoleP α) : CartPoleG α :=
  { gravity := p.gravity, masscart := p.cartMass, masspole := p.poleMass, length := p.length,
    forceMag := p.forceMag, tau := p.dt, thetaThreshold := p.thetaThreshold,
    xThreshold := p.xThreshold }

def mcG (p : MountainCarP α) : MountainCarG α :=
  { minPosition := p.minPosition, maxPosition := p.maxPosition, maxSpeed := p.maxSpeed,
    goalPosition := p.goalPosition, goalVelocity := p.goalVelocity, force := p.force,
    gravity := p.gravity }

def cmcG (p : CmcP α) : CmcG α :=
  { minAction := p.minAction, maxAction := p.maxAction, minPosition := p.minPosition,
    maxPosition := p.maxPosition, maxSpeed := p.maxSpeed, goalPosition := p.goalPosition,
    goalVelocity := p.goalVelocity, power := p.power }

def acroG (p : AcrobotP α) : AcrobotG α :=
  { l1 := p.l1, m1 := p.m1, m2 := p.m2, lc1 := p.lc1, lc2 := p.lc2, moi := p.moi,
    g := p.gravity, maxVel1 := p.maxVel1, maxVel2 := p.maxVel2, availTorque := p.torques,
    dt := p.dt }

/-! ### clip lemmas -/

theorem clamp_eq_npClip (lo hi x : α) : clamp lo hi x = npClip lo hi x := rfl

theorem clamp_mem (lo hi x : α) (h : lo ≤ hi) : lo ≤ clamp lo hi x ∧ clamp lo hi x ≤ hi := by
  unfold clamp
  constructor <;> split_ifs <;> linarith

theorem clamp_of_mem (lo hi x : α) (h1 : lo ≤ x) (h2 : x ≤ hi) : clamp lo hi x = x := by
  unfold clamp
  have : ¬ x < lo := not_lt.mpr h1
  have : ¬ hi < x := not_lt.mpr h2
  simp [*]

/-! ### CartPole -/

/-- **Same vector field**: for every parameter set, state and action `∈ {0, 1}` the lerax
    `dynamics` is `(ẋ, xacc, θ̇, thetaacc)` of Gymnasium's `step`. -/
theorem cartpole_field_eq (sin cos : α → α) (p : CartPoleP α) (y : S4 α) (a : Nat) (ha : a < 2) :
    cartpoleDynamics sin cos p y a = cartpoleField sin cos (cartG p) y a := by
  obtain rfl | rfl : a = 0 ∨ a = 1 := by omega
  · simp [cartpoleDynamics, cartpoleField, cartpoleAcc, cartG, lit, CartPoleP.totalMass,
      CartPoleP.polemassLength, CartPoleG.totalMass, CartPoleG.polemassLength]
  · have h : ((1 : ℕ) : α) * ((2 : ℕ) : α) - 1 = 1 := by push_cast; ring
    simp [cartpoleDynamics, cartpoleField, cartpoleAcc, cartG, lit, CartPoleP.totalMass,
      CartPoleP.polemassLength, CartPoleG.totalMass, CartPoleG.polemassLength]
    constructor <;> norm_num

/-- **Same limits**: neither side restricts the state (`clip` is the identity; Gymnasium's
    `step` stores the raw update). -/
theorem cartpole_limits_eq (sin cos : α → α) (p : CartPoleP α) (y : S4 α) (a : Nat) :
    cartpoleClip y = y ∧
    (cartpoleStep sin cos (cartG p) y a none).state = cartpoleNext sin cos (cartG p) y a :=
  ⟨rfl, rfl⟩

/-- **Same termination predicate.** -/
theorem cartpole_terminal_eq (p : CartPoleP α) (y : S4 α) :
    cartpoleTerminal p y = cartpoleTerminated (cartG p) y := by
  simp only [cartpoleTerminal, cartpoleTerminated, cartG]
  by_cases h1 : -p.xThreshold ≤ y.a <;> by_cases h2 : y.a ≤ p.xThreshold <;>
    by_cases h3 : -p.thetaThreshold ≤ y.c <;> by_cases h4 : y.c ≤ p.thetaThreshold <;>
    simp [h1, h2, h3, h4, not_lt.mpr, not_le.mp]

/-- **Same reward on every transition of a running episode, the terminating one included**
    (`stepsBeyond = none`: Gymnasium's episode has not terminated before this step). -/
theorem cartpole_reward_eq (sin cos : α → α) (p : CartPoleP α) (y : S4 α) (a : Nat) :
    cartpoleReward y a (cartpoleEulerStep sin cos p y a) =
      (cartpoleStep sin cos (cartG p) y a none).reward := by
  simp only [cartpoleReward, cartpoleStep, cartpoleRewardG]
  cases cartpoleTerminated (cartG p) (cartpoleNext sin cos (cartG p) y a) <;> simp

theorem cartpole_init_range_eq : (cartpoleInitRange : List (α × α)) = cartpoleResetRange := rfl

/-- **CartPole with `diffrax.Euler()` reproduces Gymnasium's update**: one explicit-Euler step
    of the lerax field over `dt = τ`, followed by `clip`, is Gymnasium's `"euler"` update; hence
    (by induction, with the termination and reward theorems) whole trajectories coincide. -/
theorem cartpole_euler_step_eq (sin cos : α → α) (p : CartPoleP α) (y : S4 α) (a : Nat)
    (ha : a < 2) :
    cartpoleEulerStep sin cos p y a = cartpoleNext sin cos (cartG p) y a := by
  have h := cartpole_field_eq sin cos p y a ha
  simp only [cartpoleEulerStep, cartpoleClip, euler4, h]
  simp [cartpoleField, cartpoleNext, cartG]

/-- trajectories: iterating the lerax Euler step equals iterating Gymnasium's update -/
theorem cartpole_euler_trajectory_eq (sin cos : α → α) (p : CartPoleP α) (y : S4 α)
    (as : List Nat) (has : ∀ a ∈ as, a < 2) :
    as.foldl (cartpoleEulerStep sin cos p) y = as.foldl (cartpoleNext sin cos (cartG p)) y := by
  induction as generalizing y with
  | nil => rfl
  | cons a as ih =>
      simp only [List.foldl_cons]
      rw [cartpole_euler_step_eq sin cos p y a (has a (by simp))]
      exact ih _ (fun b hb => has b (by simp [hb]))

/-! ### MountainCar -/

theorem mountaincar_field_eq (cos : α → α) (p : MountainCarP α) (y : S2 α) (a : Nat) :
    mcDynamics cos p y a = mcField cos (mcG p) y a := by
  simp only [mcDynamics, mcField, mcAcc, mcG, S2.mk.injEq, true_and]
  ring

/-- the left-wall rule in its two spellings -/
theorem wall_rule (v : α) (b : Bool) :
    v * ofBool (b || decide (0 < v)) = (if !b && decide (v < 0) then 0 else v) := by
  cases b
  · rcases lt_trichotomy v 0 with h | h | h
    · have : ¬ 0 < v := not_lt.mpr h.le
      simp [ofBool, h, this]
    · subst h; simp [ofBool]
    · have : ¬ v < 0 := not_lt.mpr h.le
      simp [ofBool, h, this]
  · simp [ofBool]

/-- **Same limits** (speed clip, position clip, left-wall velocity rule), for every raw state. -/
theorem mountaincar_limits_eq (p : MountainCarP α) (y : S2 α) :
    mcClip p y = mcLimits (mcG p) y := by
  simp only [mcClip, mcLimits, mcG, wall_rule]
  rfl

/-- Gymnasium's `step` is its limit handling applied to the semi-implicit raw update -/
theorem gym_mountaincar_step_factors (cos : α → α) (p : MountainCarG α) (s : S2 α) (a : Nat) :
    (mcStep cos p s a).state =
      mcLimits p ⟨s.x + npClip (-p.maxSpeed) p.maxSpeed (s.v + mcAcc cos p s a),
                  s.v + mcAcc cos p s a⟩ := rfl

theorem mountaincar_terminal_eq (p : MountainCarP α) (y : S2 α) :
    mcTerminal p y = mcTerminated (mcG p) y := rfl

/-- **Same reward on every transition** (−1, the goal step included). -/
theorem mountaincar_reward_eq (cos : α → α) (p : MountainCarP α) (y y' : S2 α) (a : Nat) :
    mcReward y a y' = (mcStep cos (mcG p) y a).reward := rfl

theorem mountaincar_init_range_eq : (mcInitRange : List (α × α)) = mcResetRange := rfl

/-! ### ContinuousMountainCar -/

theorem cmc_field_eq (cos : α → α) (p : CmcP α) (y : S2 α) (a : α) :
    cmcDynamics cos p y a = cmcField cos (cmcG p) y a := by
  simp only [cmcDynamics, cmcField, cmcAcc, cmcG, clamp_eq_npClip, S2.mk.injEq, true_and]
  ring

/-- Gymnasium's `if` cascade (upper bound first) is `clip` for well-formed bounds -/
theorem cascade_eq_clamp (lo hi x : α) (h : lo ≤ hi) :
    (if (if hi < x then hi else x) < lo then lo else (if hi < x then hi else x)) = clamp lo hi x := by
  unfold clamp
  split_ifs <;> first | rfl | linarith

/-- Gymnasium's limit cascade in closed form -/
theorem gym_cmcLimits_eq (g : CmcG α) (y : S2 α) (hp : g.minPosition ≤ g.maxPosition)
    (hs : 0 ≤ g.maxSpeed) :
    cmcLimits g y =
      ⟨clamp g.minPosition g.maxPosition y.x,
       clamp (-g.maxSpeed) g.maxSpeed y.v *
         ofBool (neq (clamp g.minPosition g.maxPosition y.x) g.minPosition ||
           decide (0 < clamp (-g.maxSpeed) g.maxSpeed y.v))⟩ := by
  have hs' : -g.maxSpeed ≤ g.maxSpeed := by linarith
  have e1 := cascade_eq_clamp g.minPosition g.maxPosition y.x hp
  have e2 := cascade_eq_clamp (-g.maxSpeed) g.maxSpeed y.v hs'
  simp only [cmcLimits, wall_rule]
  rw [e1, e2]

/-- **Same limits** incl. the left-wall rule, for every raw state
    (`min_position ≤ max_position`, `0 ≤ max_speed`). -/
theorem cmc_limits_eq (p : CmcP α) (y : S2 α) (hp : p.minPosition ≤ p.maxPosition)
    (hs : 0 ≤ p.maxSpeed) :
    cmcClip p y = cmcLimits (cmcG p) y := by
  rw [gym_cmcLimits_eq (cmcG p) y hp hs]
  rfl

theorem cmc_terminal_eq (p : CmcP α) (y : S2 α) :
    cmcTerminal p y = cmcTerminated (cmcG p) y := rfl

/-- **Same reward on every transition `(y, a, y')`, the goal step included**: the bonus is
    decided on the state *after* the transition, as in Gymnasium; `a` in the action space. -/
theorem cmc_reward_eq (p : CmcP α) (y y' : S2 α) (a : α)
    (h1 : p.minAction ≤ a) (h2 : a ≤ p.maxAction) :
    cmcReward p y a y' = cmcRewardG (cmcTerminated (cmcG p) y') a := by
  rw [cmcReward, cmcRewardG, clamp_of_mem _ _ _ h1 h2, ← cmc_terminal_eq]
  by_cases h : cmcTerminal p y' = true
  · simp only [h, ofBool, if_true]; ring
  · simp only [h, ofBool]; simp; ring

theorem cmc_init_range_eq : (cmcInitRange : List (α × α)) = cmcResetRange := rfl

theorem cmc_default_goal_eq : (cmcDefaultGoal : α) = cmcGoal := rfl

/-! ### Acrobot -/

/-- **Same vector field** ("book" dynamics), every parameter set, state, action. -/
theorem acrobot_field_eq (sin cos : α → α) (pi : α) (p : AcrobotP α) (y : S4 α) (a : Nat) :
    acrobotDynamics sin cos pi p y a = acrobotField sin cos pi (acroG p) y a := by
  simp only [acrobotDynamics, acrobotField, acrobotDsdt, acroG, S4.mk.injEq, true_and]
  constructor <;> ring

theorem acrobot_terminal_eq (cos : α → α) (y : S4 α) :
    acrobotTerminal cos y = acrobotTerminated cos y := by
  simp only [acrobotTerminal, acrobotTerminated, add_comm y.a y.b]

/-- **Same reward on every transition** (0 on the terminating step, −1 otherwise). -/
theorem acrobot_reward_eq (cos : α → α) (y y' : S4 α) (a : Nat) :
    acrobotReward cos y a y' = acrobotRewardG (acrobotTerminated cos y') := by
  simp only [acrobotReward, acrobotRewardG, acrobot_terminal_eq]
  cases acrobotTerminated cos y' <;> simp [ofBool]

theorem acrobot_init_range_eq : (acrobotInitRange : List (α × α)) = acrobotResetRange := rfl

theorem acrobot_obs_eq (sin cos : α → α) (y : S4 α) :
    Classic.acrobotObs sin cos y = GymRef.acrobotObs sin cos y := rfl

/-- `while x > M: x -= diff` subtracts a natural multiple of `diff` -/
theorem wrapDown_spec (n : Nat) (M diff x : α) :
    ∃ k : ℕ, wrapDown n M diff x = x - k * diff := by
  induction n generalizing x with
  | zero => exact ⟨0, by simp [wrapDown]⟩
  | succ n ih =>
      unfold wrapDown
      split_ifs
      · obtain ⟨k, hk⟩ := ih (x - diff)
        exact ⟨k + 1, by rw [hk]; push_cast; ring⟩
      · exact ⟨0, by simp⟩

theorem wrapUp_spec (n : Nat) (m diff x : α) :
    ∃ k : ℕ, wrapUp n m diff x = x + k * diff := by
  induction n generalizing x with
  | zero => exact ⟨0, by simp [wrapUp]⟩
  | succ n ih =>
      unfold wrapUp
      split_ifs
      · obtain ⟨k, hk⟩ := ih (x + diff)
        exact ⟨k + 1, by rw [hk]; push_cast; ring⟩
      · exact ⟨0, by simp⟩

/-- Gymnasium's `wrap` moves `x` by an integer multiple of the period -/
theorem wrap_spec (fuel : Nat) (m M x : α) : ∃ j : ℤ, GymRef.wrap fuel m M x = x + j * (M - m) := by
  obtain ⟨k1, h1⟩ := wrapDown_spec fuel M (M - m) x
  obtain ⟨k2, h2⟩ := wrapUp_spec fuel m (M - m) (wrapDown fuel M (M - m) x)
  refine ⟨(k2 : ℤ) - k1, ?_⟩
  unfold GymRef.wrap
  rw [h2, h1]
  push_cast
  ring

/-- contract of `jnp`'s float `%` for a positive modulus: result in `[0, m)`, congruent -/
def PmodSpec (pmod : α → α → α) : Prop :=
  ∀ a m : α, 0 < m → 0 ≤ pmod a m ∧ pmod a m < m ∧ ∃ k : ℤ, a = pmod a m + k * m

/-- **Angle wrapping agrees**: lerax's `(x + π) % 2π − π ∈ [−π, π)` and Gymnasium's
    `wrap(x, −π, π) ∈ [−π, π]` (loops run to completion) are equal, except that the single
    angle `π` is represented as `π` by Gymnasium and as `−π` by lerax (same point of the circle). -/
theorem acrobot_wrap_eq (pmod : α → α → α) (hpm : PmodSpec pmod) (pi : α) (hpi : 0 < pi)
    (fuel : Nat) (x : α)
    (hlo : -pi ≤ GymRef.wrap fuel (-pi) pi x) (hhi : GymRef.wrap fuel (-pi) pi x ≤ pi) :
    GymRef.wrap fuel (-pi) pi x = wrapPi pmod pi x ∨
    (GymRef.wrap fuel (-pi) pi x = pi ∧ wrapPi pmod pi x = -pi) := by
  obtain ⟨j, hj⟩ := wrap_spec fuel (-pi) pi x
  have h2pi : (0 : α) < 2 * pi := by linarith
  obtain ⟨hw0, hw1, k, hk⟩ := hpm (x + pi) (2 * pi) h2pi
  set g := GymRef.wrap fuel (-pi) pi x with hg
  have hwdef : wrapPi pmod pi x = pmod (x + pi) (2 * pi) - pi := by
    simp [wrapPi, lit]
  set w := wrapPi pmod pi x with hw
  have hwx : w = x - k * (2 * pi) := by rw [hwdef]; linarith
  have hdiff : g - w = ((j + k : ℤ) : α) * (2 * pi) := by
    rw [hj, hwx]; push_cast; ring
  have hwlo : -pi ≤ w := by rw [hwdef]; linarith
  have hwhi : w < pi := by rw [hwdef]; linarith
  have hn1 : ((-1 : ℤ) : α) * (2 * pi) < ((j + k : ℤ) : α) * (2 * pi) := by
    rw [← hdiff]; push_cast; linarith
  have hn2 : ((j + k : ℤ) : α) * (2 * pi) ≤ ((1 : ℤ) : α) * (2 * pi) := by
    rw [← hdiff]; push_cast; linarith
  have hn1' : (-1 : ℤ) < j + k := by
    have := lt_of_mul_lt_mul_right hn1 h2pi.le
    exact_mod_cast this
  have hn2' : j + k ≤ (1 : ℤ) := by
    have := le_of_mul_le_mul_right hn2 h2pi
    exact_mod_cast this
  obtain h | h : j + k = 0 ∨ j + k = 1 := by omega
  · left
    rw [h] at hdiff
    simp at hdiff
    linarith
  · right
    rw [h] at hdiff
    simp at hdiff
    constructor <;> linarith

/-- **Same limits**: velocity bounds identical; angles identical whenever Gymnasium's result is
    not exactly `π` (where the two differ by one full turn, see `acrobot_wrap_eq`). -/
theorem acrobot_limits_eq (pmod : α → α → α) (hpm : PmodSpec pmod) (pi : α) (hpi : 0 < pi)
    (fuel : Nat) (p : AcrobotP α) (y : S4 α)
    (ha : -pi ≤ GymRef.wrap fuel (-pi) pi y.a ∧ GymRef.wrap fuel (-pi) pi y.a < pi)
    (hb : -pi ≤ GymRef.wrap fuel (-pi) pi y.b ∧ GymRef.wrap fuel (-pi) pi y.b < pi) :
    acrobotClip pmod pi p y = acrobotLimits fuel pi (acroG p) y := by
  have e1 : GymRef.wrap fuel (-pi) pi y.a = wrapPi pmod pi y.a := by
    rcases acrobot_wrap_eq pmod hpm pi hpi fuel y.a ha.1 ha.2.le with h | ⟨h, _⟩
    · exact h
    · exact absurd h (ne_of_lt ha.2)
  have e2 : GymRef.wrap fuel (-pi) pi y.b = wrapPi pmod pi y.b := by
    rcases acrobot_wrap_eq pmod hpm pi hpi fuel y.b hb.1 hb.2.le with h | ⟨h, _⟩
    · exact h
    · exact absurd h (ne_of_lt hb.2)
  simp only [acrobotClip, acrobotLimits, acroG, bound, clamp_eq_npClip, e1, e2]


/-- the contract is satisfiable: floor-based remainder `a - m * ⌊a / m⌋` (what `jnp`'s float `%`
    computes up to rounding) satisfies it in every floor ring, e.g. ℝ and ℚ -/
theorem pmodFloor_spec [FloorRing α] : PmodSpec (fun a m : α => a - m * ((⌊a / m⌋ : ℤ) : α)) := by
  intro a m hm
  have h1 : ((⌊a / m⌋ : ℤ) : α) ≤ a / m := Int.floor_le _
  have h2 : a / m < ((⌊a / m⌋ : ℤ) : α) + 1 := Int.lt_floor_add_one _
  have e : m * (a / m) = a := by field_simp
  have h1' : m * ((⌊a / m⌋ : ℤ) : α) ≤ a := by
    have := mul_le_mul_of_nonneg_left h1 hm.le
    rwa [e] at this
  have h2' : a < m * (((⌊a / m⌋ : ℤ) : α) + 1) := by
    have := mul_lt_mul_of_pos_left h2 hm
    rwa [e] at this
  refine ⟨by linarith, by linarith, ⌊a / m⌋, by ring⟩

/-- hence `acrobot_wrap_eq` / `acrobot_limits_eq` are not vacuous -/
theorem acrobot_limits_eq_floor [FloorRing α] (pi : α) (hpi : 0 < pi) (fuel : Nat) (p : AcrobotP α)
    (y : S4 α)
    (ha : -pi ≤ GymRef.wrap fuel (-pi) pi y.a ∧ GymRef.wrap fuel (-pi) pi y.a < pi)
    (hb : -pi ≤ GymRef.wrap fuel (-pi) pi y.b ∧ GymRef.wrap fuel (-pi) pi y.b < pi) :
    acrobotClip (fun a m : α => a - m * ((⌊a / m⌋ : ℤ) : α)) pi p y =
      acrobotLimits fuel pi (acroG p) y :=
  acrobot_limits_eq _ pmodFloor_spec pi hpi fuel p y ha hb

/-! ### C02: observations of clipped states lie in the declared observation space -/

/-- membership of a list in a box, Prop form of `Classic.inBox` for lists of equal length -/
theorem inBox_iff3 (l1 l2 l3 h1 h2 h3 x1 x2 x3 : α) :
    inBox [l1, l2, l3] [h1, h2, h3] [x1, x2, x3] = true ↔
      (l1 ≤ x1 ∧ x1 ≤ h1) ∧ (l2 ≤ x2 ∧ x2 ≤ h2) ∧ (l3 ≤ x3 ∧ x3 ≤ h3) := by
  simp [inBox, and_assoc]

theorem wall_factor_mem (v ms : α) (b : Bool) (h1 : -ms ≤ v) (h2 : v ≤ ms) (hs : 0 ≤ ms) :
    -ms ≤ v * ofBool b ∧ v * ofBool b ≤ ms := by
  cases b
  · have : v * ofBool false = 0 := by simp [ofBool]
    rw [this]; constructor <;> linarith
  · have : v * ofBool true = v := by simp [ofBool]
    rw [this]; exact ⟨h1, h2⟩

/-- **C02 bound theorem**: for MountainCar, ContinuousMountainCar, Pendulum and Acrobot and ANY
    solver output `y` (arbitrary numbers — the ODE solver is an oracle), the observation of the
    clipped state lies inside the declared observation-space bounds.  Uses only
    `-1 ≤ sin, cos ≤ 1`, well-formed bounds, and the clip lemma. -/
theorem classic_obs_in_space (sin cos : α → α) (pmod : α → α → α) (pi : α)
    (hsin : ∀ x, -1 ≤ sin x ∧ sin x ≤ 1) (hcos : ∀ x, -1 ≤ cos x ∧ cos x ≤ 1) :
    (∀ (p : MountainCarP α) (y : S2 α), p.minPosition ≤ p.maxPosition → 0 ≤ p.maxSpeed →
      inBox (mcObsLow p) (mcObsHigh p) (mcObs (mcClip p y)) = true) ∧
    (∀ (p : CmcP α) (y : S2 α), p.minPosition ≤ p.maxPosition → 0 ≤ p.maxSpeed →
      inBox (cmcObsLow p) (cmcObsHigh p) (cmcObs (cmcClip p y)) = true) ∧
    (∀ (p : PendulumP α) (y : S2 α), 0 ≤ p.maxSpeed →
      inBox ((pendulumObsHigh p).map Neg.neg) (pendulumObsHigh p)
        (pendulumObs sin cos (pendulumClip pmod pi p y)) = true) ∧
    (∀ (p : AcrobotP α) (y : S4 α), 0 ≤ p.maxVel1 → 0 ≤ p.maxVel2 →
      inBox ((acrobotObsHigh p).map Neg.neg) (acrobotObsHigh p)
        (Classic.acrobotObs sin cos (acrobotClip pmod pi p y)) = true) := by
  refine ⟨?_, ?_, ?_, ?_⟩
  · intro p y hp hs
    have hx := clamp_mem p.minPosition p.maxPosition y.x hp
    have hv := clamp_mem (-p.maxSpeed) p.maxSpeed y.v (by linarith)
    have hw := wall_factor_mem _ p.maxSpeed
      (neq (clamp p.minPosition p.maxPosition y.x) p.minPosition ||
        decide (0 < clamp (-p.maxSpeed) p.maxSpeed y.v)) hv.1 hv.2 hs
    simp [inBox, mcObsLow, mcObsHigh, mcObs, mcClip, S2.toList, hx.1, hx.2, hw.1, hw.2]
  · intro p y hp hs
    have hx := clamp_mem p.minPosition p.maxPosition y.x hp
    have hv := clamp_mem (-p.maxSpeed) p.maxSpeed y.v (by linarith)
    have hw := wall_factor_mem _ p.maxSpeed
      (neq (clamp p.minPosition p.maxPosition y.x) p.minPosition ||
        decide (0 < clamp (-p.maxSpeed) p.maxSpeed y.v)) hv.1 hv.2 hs
    simp [inBox, cmcObsLow, cmcObsHigh, cmcObs, cmcClip, S2.toList, hx.1, hx.2, hw.1, hw.2]
  · intro p y hs
    have hv := clamp_mem (-p.maxSpeed) p.maxSpeed y.v (by linarith)
    simp [inBox, pendulumObsHigh, pendulumObs, pendulumClip, hv.1, hv.2, (hsin _).1, (hsin _).2,
      (hcos _).1, (hcos _).2]
  · intro p y h1 h2
    have hv1 := clamp_mem (-p.maxVel1) p.maxVel1 y.c (by linarith)
    have hv2 := clamp_mem (-p.maxVel2) p.maxVel2 y.d (by linarith)
    simp [inBox, acrobotObsHigh, Classic.acrobotObs, acrobotClip, hv1.1, hv1.2, hv2.1, hv2.2,
      (hsin _).1, (hsin _).2, (hcos _).1, (hcos _).2]

/-- **C02, CartPole (partial)**: every *non-terminal* state is inside the declared observation
    space (`|x| ≤ x_thr ≤ 2·x_thr`, `|θ| ≤ θ_thr ≤ 2·θ_thr`, velocities unbounded).  Missing: the
    one post-terminal state `step` may expose is not bounded by the code (nor by Gymnasium) —
    left to the differential check of C02. -/
theorem cartpole_obs_in_space_partial (p : CartPoleP α) (y : S4 α)
    (hx : 0 ≤ p.xThreshold) (ht : 0 ≤ p.thetaThreshold) (hnt : cartpoleTerminal p y = false) :
    (-(p.xThreshold * lit 2) ≤ y.a ∧ y.a ≤ p.xThreshold * lit 2) ∧
    (-(p.thetaThreshold * lit 2) ≤ y.c ∧ y.c ≤ p.thetaThreshold * lit 2) := by
  simp only [cartpoleTerminal, Bool.not_eq_false', Bool.and_eq_true, decide_eq_true_eq] at hnt
  obtain ⟨⟨h1, h2⟩, h3, h4⟩ := hnt
  have : (lit 2 : α) = 2 := by simp [lit]
  rw [this]
  refine ⟨⟨?_, ?_⟩, ?_, ?_⟩ <;> linarith


/-! ### Φ as decided by the driver (`Classic.phiSame`) holds of the two models -/

theorem sameList_refl {β : Type} (eqv : β → β → Bool) (h : ∀ x, eqv x x = true) (xs : List β) :
    sameList eqv xs xs = true := by
  induction xs with
  | nil => rfl
  | cons x xs ih => simp [sameList, h, ih]

/-- if every clause compares two equal answers, `phiSame` reports no failing clause -/
theorem phiSame_none {β : Type} (eqv : β → β → Bool) (h : ∀ x, eqv x x = true)
    (clauses : List (String × List β × List β)) (heq : ∀ c ∈ clauses, c.2.1 = c.2.2) :
    phiSame eqv clauses = none := by
  unfold phiSame
  rw [Option.map_eq_none_iff, List.find?_eq_none]
  intro c hc
  simp [heq c hc, sameList_refl eqv h]

/-- **Φ for ContinuousMountainCar**: the clauses the harness submits (field, limits, reward,
    termination), computed by the lerax model and by the Gymnasium model, always pass. -/
theorem phi_cmc (cos : α → α) (p : CmcP α) (y raw y' : S2 α) (a : α)
    (hp : p.minPosition ≤ p.maxPosition) (hs : 0 ≤ p.maxSpeed)
    (h1 : p.minAction ≤ a) (h2 : a ≤ p.maxAction) :
    phiSame (fun u v : α => decide (u = v))
      [("field", (cmcDynamics cos p y a).toList, (cmcField cos (cmcG p) y a).toList),
       ("limits", (cmcClip p raw).toList, (cmcLimits (cmcG p) raw).toList),
       ("reward", [cmcReward p y a y'], [cmcRewardG (cmcTerminated (cmcG p) y') a]),
       ("terminated", [ofBool (cmcTerminal p y')], [ofBool (cmcTerminated (cmcG p) y')])] = none := by
  apply phiSame_none _ (by simp)
  intro c hc
  simp only [List.mem_cons, List.not_mem_nil, or_false] at hc
  rcases hc with rfl | rfl | rfl | rfl
  · simp only [cmc_field_eq]
  · simp only [cmc_limits_eq p raw hp hs]
  · simp only [cmc_reward_eq p y y' a h1 h2]
  · simp only [cmc_terminal_eq]

/-- **Φ for MountainCar** -/
theorem phi_mountaincar (cos : α → α) (p : MountainCarP α) (y raw y' : S2 α) (a : Nat) :
    phiSame (fun u v : α => decide (u = v))
      [("field", (mcDynamics cos p y a).toList, (mcField cos (mcG p) y a).toList),
       ("limits", (mcClip p raw).toList, (mcLimits (mcG p) raw).toList),
       ("reward", [mcReward y a y'], [(mcStep cos (mcG p) y a).reward]),
       ("terminated", [ofBool (mcTerminal p y')], [ofBool (mcTerminated (mcG p) y')])] = none := by
  apply phiSame_none _ (by simp)
  intro c hc
  simp only [List.mem_cons, List.not_mem_nil, or_false] at hc
  rcases hc with rfl | rfl | rfl | rfl
  · simp only [mountaincar_field_eq]
  · simp only [mountaincar_limits_eq]
  · rfl
  · rfl

/-! ### pre-repair behaviour differs from Gymnasium (kernel-checked witnesses over ℚ) -/

def cmcWitness : CmcP ℚ :=
  { minAction := -1, maxAction := 1, minPosition := -12 / 10, maxPosition := 6 / 10,
    maxSpeed := 7 / 100, goalPosition := 45 / 100, goalVelocity := 0, power := 15 / 10000,
    dt := 1 }

/-- goal step `y = (0.44, 0.05) → y' = (0.49, 0.05)`, `a = 1/2`: Gymnasium pays
    `100 − 0.025`, the pre-repair lerax reward `−0.025`. -/
theorem legacy_cmc_reward_differs :
    LegacyCmcReward cmcWitness ⟨44 / 100, 5 / 100⟩ (1 / 2) ⟨49 / 100, 5 / 100⟩ ≠
      cmcRewardG (cmcTerminated (cmcG cmcWitness) ⟨49 / 100, 5 / 100⟩) (1 / 2) := by
  norm_num [LegacyCmcReward, cmcRewardG, cmcTerminated, cmcTerminal, cmcG, cmcWitness, clamp,
    ofBool, lit]

/-- the repaired reward on the same transition equals Gymnasium's (non-vacuity of `cmc_reward_eq`
    on a goal step) -/
example :
    cmcReward cmcWitness ⟨44 / 100, 5 / 100⟩ (1 / 2) ⟨49 / 100, 5 / 100⟩ = 100 - 1 / 40 := by
  norm_num [cmcReward, cmcTerminal, cmcWitness, clamp, ofBool, lit]

/-- raw state beyond the left wall with negative speed: Gymnasium stops the car, the pre-repair
    `clip` kept the speed. -/
theorem legacy_cmc_clip_differs :
    LegacyCmcClip cmcWitness ⟨-13 / 10, -5 / 100⟩ ≠ cmcLimits (cmcG cmcWitness) ⟨-13 / 10, -5 / 100⟩ := by
  norm_num [LegacyCmcClip, cmcLimits, cmcG, cmcWitness, clamp, neq]

example : cmcClip cmcWitness ⟨-13 / 10, -5 / 100⟩ = ⟨-12 / 10, 0⟩ := by
  norm_num [cmcClip, cmcWitness, clamp, neq, ofBool]

theorem legacy_cmc_goal_differs : (LegacyCmcDefaultGoal : ℚ) ≠ cmcGoal := by
  norm_num [LegacyCmcDefaultGoal, cmcGoal, lit]

/-! ### non-vacuity -/

/-- MountainCar at the left wall: both sides stop the car. -/
example :
    mcClip ({ minPosition := -12 / 10, maxPosition := 6 / 10, maxSpeed := 7 / 100,
              goalPosition := 1 / 2, goalVelocity := 0, force := 1 / 1000,
              gravity := 25 / 10000, dt := 1 } : MountainCarP ℚ) ⟨-2, -1⟩ = ⟨-12 / 10, 0⟩ := by
  norm_num [mcClip, clamp, neq, ofBool]

/-- the CartPole hypotheses are satisfiable and the field is not trivially zero:
    with `sin = cos = fun _ => 1/2` the pole acceleration at rest, action 1, is non-zero. -/
example :
    (cartpoleDynamics (fun _ => (1 / 2 : ℚ)) (fun _ => 1 / 2)
      { gravity := 98 / 10, cartMass := 1, poleMass := 1 / 10, length := 1 / 2, forceMag := 10,
        thetaThreshold := 1 / 5, xThreshold := 24 / 10, dt := 1 / 50 } ⟨0, 0, 0, 0⟩ 1).d ≠ 0 := by
  norm_num [cartpoleDynamics, CartPoleP.totalMass, CartPoleP.polemassLength, lit]

/-- a function satisfying `PmodSpec` on the inputs used exists for ℚ with modulus 2·π̂, π̂ = 3:
    wrapping 4 gives −2 on both sides. -/
example : GymRef.wrap 8 (-3 : ℚ) 3 4 = -2 := by
  norm_num [GymRef.wrap, wrapDown, wrapUp]

end Lerax.C17
