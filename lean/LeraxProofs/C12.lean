/-
  C12 — JAX transformations are transparent; parallel environments never mix.

  Theorem-carried part: vectorised collection is `List.map` of single-environment collection,
  so stream `i` depends on environment `i`'s own start state and keys only (on-policy with GAE,
  off-policy with per-environment buffers).  That eager / jit / vmap evaluation of lerax's
  environment code agree is a statement about JAX's tracing; it is decided differentially
  (harness/c12.py).
-/
import LeraxModel.OnPolicy
import LeraxModel.OffPolicy
import LeraxModel.Gae
import LeraxProofs.C04

namespace Lerax.C12
open Lerax.Env

section onpolicy
open Lerax.OnPolicy
variable {S A O K PS M α : Type} [Keys K] [Add α] [Mul α]

/-- **N parallel environments produce exactly the N single-environment rollouts** from the same
    per-environment keys and start states. -/
theorem collectN_eq_map (E : Env S A O α K) (mask : S → K → Option M) (clip : A → A)
    (P : Policy PS O A M α K) (γ : α) (envs : List (StepState S PS × List K)) (i : Nat) :
    (collectN E mask clip P γ envs)[i]? =
      (envs[i]?).map (fun e => collectRollout E mask clip P γ e.1 e.2) :=
  Lerax.C04.collectN_eq_map E mask clip P γ envs i

/-- **Nothing crosses between environments**: replacing any other environment's start state or
    keys leaves stream `i` (all rows and the final step state) unchanged. -/
theorem stream_independent (E : Env S A O α K) (mask : S → K → Option M) (clip : A → A)
    (P : Policy PS O A M α K) (γ : α) (envs : List (StepState S PS × List K)) (i j : Nat)
    (hij : i ≠ j) (e' : StepState S PS × List K) :
    (collectN E mask clip P γ (envs.set j e'))[i]? = (collectN E mask clip P γ envs)[i]? := by
  simp only [collectN, List.getElem?_map]
  rw [List.getElem?_set_ne (fun h => hij h.symm)]

end onpolicy

section offpolicy
open Lerax.OffPolicy
variable {S A O K PS α : Type} [Keys K]

/-- off-policy: each environment owns its buffer; collection is a map over environments -/
def collectN (E : Env S A O α K) (clip : A → A) (P : Policy PS O A K)
    (envs : List (StepState S PS O A α × List K)) : List (StepState S PS O A α) :=
  envs.map (fun e => collect E clip P e.1 e.2)

theorem off_stream_independent (E : Env S A O α K) (clip : A → A) (P : Policy PS O A K)
    (envs : List (StepState S PS O A α × List K)) (i j : Nat) (hij : i ≠ j)
    (e' : StepState S PS O A α × List K) :
    (collectN E clip P (envs.set j e'))[i]? = (collectN E clip P envs)[i]? := by
  simp only [collectN, List.getElem?_map]
  rw [List.getElem?_set_ne (fun h => hij h.symm)]

end offpolicy

section gae
open Lerax.Gae
variable {α : Type} [Add α] [Sub α] [Mul α] [Zero α] [One α]

/-- advantages of environment `i` are computed from environment `i`'s rollout only -/
theorem gae_stream_independent (γ lam : α) (envs : List (List α × List α × List Bool × α)) (i j : Nat)
    (hij : i ≠ j) (e' : List α × List α × List Bool × α) :
    (gaeBatch γ lam (envs.set j e'))[i]? = (gaeBatch γ lam envs)[i]? := by
  simp only [gaeBatch, List.getElem?_map]
  rw [List.getElem?_set_ne (fun h => hij h.symm)]

end gae
end Lerax.C12
