/-
  C20 — Unitree G1 episodes are randomised within range and gait phase stays coherent.

  Theorems about `Lerax.G1` (model of `env/unitree/g1/{gait,randomize,base_g1,locomotion,
  standing,standup}.py`) over an arbitrary linearly ordered field (hence ℝ), for every draw of
  the PRNG within its documented range, every configured range, all three tasks, every gait
  frequency / control period ≥ 0 and every step history.

  `pi` is any positive number; C's `fmod` is a function parameter constrained by `FmodSpec`
  (discharged for every floor ring, in particular ℝ, at the end of the file).
-/
import LeraxModel.G1
import Mathlib.Algebra.Order.Field.Basic
import Mathlib.Algebra.Order.Floor.Ring
import Mathlib.Data.List.GetD
import Mathlib.Algebra.Order.Archimedean.Real.Basic
import Mathlib.Tactic.LinearCombination
import Mathlib.Tactic.FieldSimp
import Mathlib.Tactic.Ring
import Mathlib.Tactic.Linarith
import Mathlib.Tactic.Positivity

namespace Lerax.C20
open Lerax.G1

set_option linter.unusedSectionVars false

/-! ## gait clock -/

section gait
variable {α : Type} [Field α] [LinearOrder α] [IsStrictOrderedRing α]

/-- the contract of C `fmod` used by the gait clock (non-negative dividend, positive divisor) -/
structure FmodSpec (fmod : α → α → α) : Prop where
  spec : ∀ a p : α, 0 ≤ a → 0 < p →
    0 ≤ fmod a p ∧ fmod a p < p ∧ ∃ k : ℕ, a = fmod a p + (k : α) * p

theorem advance1_spec (pi : α) (fmod : α → α → α) (hm : FmodSpec fmod) (hpi : 0 < pi)
    (ph f dt : α) (hf : 0 ≤ f) (hdt : 0 ≤ dt) (hlo : -pi ≤ ph) :
    -pi ≤ advance1 pi fmod ph f dt ∧ advance1 pi fmod ph f dt < pi ∧
    ∃ k : ℕ, advance1 pi fmod ph f dt + (k : α) * (2 * pi) = ph + 2 * pi * f * dt := by
  have hinc : 0 ≤ 2 * pi * f * dt := by positivity
  obtain ⟨h0, h1, k, hk⟩ := hm.spec (ph + 2 * pi * f * dt + pi) (2 * pi) (by linarith) (by linarith)
  simp only [advance1]
  refine ⟨by linarith, by linarith, k, by linarith⟩

/-- both phases within `[-pi, pi]` -/
def InRange (pi : α) (p : α × α) : Prop := (-pi ≤ p.1 ∧ p.1 ≤ pi) ∧ (-pi ≤ p.2 ∧ p.2 ≤ pi)

/-- **`phase_in_range`.**  For `f, dt ≥ 0` and phases in `[-pi, pi]` the next phases lie in
    `[-pi, pi)` (half-open: `+pi` itself is never produced by a step). -/
theorem phase_in_range (pi : α) (fmod : α → α → α) (hm : FmodSpec fmod) (hpi : 0 < pi)
    (p : α × α) (f dt : α) (hf : 0 ≤ f) (hdt : 0 ≤ dt) (hp : InRange pi p) :
    (-pi ≤ (advance_gait_phase pi fmod p f dt).1 ∧ (advance_gait_phase pi fmod p f dt).1 < pi) ∧
    (-pi ≤ (advance_gait_phase pi fmod p f dt).2 ∧ (advance_gait_phase pi fmod p f dt).2 < pi) := by
  obtain ⟨a1, a2, _⟩ := advance1_spec pi fmod hm hpi p.1 f dt hf hdt hp.1.1
  obtain ⟨b1, b2, _⟩ := advance1_spec pi fmod hm hpi p.2 f dt hf hdt hp.2.1
  exact ⟨⟨a1, a2⟩, ⟨b1, b2⟩⟩

/-- **`phase_advance`.**  Each phase advances by `2·pi·f·dt` modulo `2·pi`: the next phase plus
    a whole number `k` of cycles equals the old phase plus the increment. -/
theorem phase_advance (pi : α) (fmod : α → α → α) (hm : FmodSpec fmod) (hpi : 0 < pi)
    (p : α × α) (f dt : α) (hf : 0 ≤ f) (hdt : 0 ≤ dt) (hp : InRange pi p) :
    (∃ k : ℕ, (advance_gait_phase pi fmod p f dt).1 + (k : α) * (2 * pi) = p.1 + 2 * pi * f * dt) ∧
    (∃ k : ℕ, (advance_gait_phase pi fmod p f dt).2 + (k : α) * (2 * pi) = p.2 + 2 * pi * f * dt) :=
  ⟨(advance1_spec pi fmod hm hpi p.1 f dt hf hdt hp.1.1).2.2,
   (advance1_spec pi fmod hm hpi p.2 f dt hf hdt hp.2.1).2.2⟩

theorem ofNat'_eq_cast (n : ℕ) : (ofNat' n : α) = (n : α) := by
  induction n with
  | zero => simp [ofNat']
  | succ n ih => simp [ofNat', ih]

/-- the executable clause `phiAdvance` holds of the model for a suitable number of wraps -/
theorem phi_advance (pi : α) (fmod : α → α → α) (hm : FmodSpec fmod) (hpi : 0 < pi)
    (ph f dt : α) (hf : 0 ≤ f) (hdt : 0 ≤ dt) (hlo : -pi ≤ ph) :
    ∃ k : ℕ, phiAdvance (fun a b => decide (a = b)) pi ph f dt (advance1 pi fmod ph f dt) k = true := by
  obtain ⟨_, _, k, hk⟩ := advance1_spec pi fmod hm hpi ph f dt hf hdt hlo
  exact ⟨k, by simp [phiAdvance, ofNat'_eq_cast, hk]⟩

/-- half a cycle apart: `right - left ≡ pi (mod 2 pi)` -/
def HalfCycle (pi : α) (p : α × α) : Prop := ∃ k : ℤ, p.2 - p.1 = pi + (k : α) * (2 * pi)

/-- the invariant of the gait clock -/
def Inv (pi : α) (p : α × α) : Prop := InRange pi p ∧ HalfCycle pi p

theorem inv_initial (pi : α) (hpi : 0 < pi) : Inv pi (initial_gait_phase pi) := by
  refine ⟨⟨⟨by simp [initial_gait_phase]; linarith, by simp [initial_gait_phase]; linarith⟩,
    ⟨by simp [initial_gait_phase]; linarith, by simp [initial_gait_phase]⟩⟩, 0, ?_⟩
  simp [initial_gait_phase]

theorem inv_step (pi : α) (fmod : α → α → α) (hm : FmodSpec fmod) (hpi : 0 < pi)
    (p : α × α) (f dt : α) (hf : 0 ≤ f) (hdt : 0 ≤ dt) (hp : Inv pi p) :
    Inv pi (advance_gait_phase pi fmod p f dt) := by
  obtain ⟨hr, k, hk⟩ := hp
  obtain ⟨a1, a2, ka, ha⟩ := advance1_spec pi fmod hm hpi p.1 f dt hf hdt hr.1.1
  obtain ⟨b1, b2, kb, hb⟩ := advance1_spec pi fmod hm hpi p.2 f dt hf hdt hr.2.1
  refine ⟨⟨⟨a1, a2.le⟩, ⟨b1, b2.le⟩⟩, k + (ka : ℤ) - (kb : ℤ), ?_⟩
  simp only [advance_gait_phase]
  push_cast
  linear_combination hb - ha + hk

/-- for phases in `[-pi, pi]`, half a cycle apart means `right - left = ±pi` -/
theorem half_cycle_pm (pi : α) (hpi : 0 < pi) (p : α × α) (hp : Inv pi p) :
    p.2 - p.1 = pi ∨ p.2 - p.1 = -pi := by
  obtain ⟨⟨⟨l1, l2⟩, ⟨r1, r2⟩⟩, k, hk⟩ := hp
  have hk0 : k = 0 ∨ k = -1 := by
    by_contra hne
    have : 1 ≤ k ∨ k ≤ -2 := by omega
    rcases this with h | h
    · have h' : (1 : α) ≤ (k : α) := by exact_mod_cast h
      nlinarith
    · have h' : (k : α) ≤ -2 := by exact_mod_cast h
      nlinarith
  rcases hk0 with h | h
  · left; rw [hk, h]; simp
  · right; rw [hk, h]; push_cast; ring

/-- **`phase_half_cycle`** (induction over histories).  Along every step history — any length,
    any per-step frequency and control period ≥ 0 — starting from the initial phases `[0, pi]`,
    every visited pair of phases lies in `[-pi, pi]` and the two phases differ by `pi` modulo
    `2·pi` (equivalently, by exactly `+pi` or `-pi`). -/
theorem phase_half_cycle (pi : α) (fmod : α → α → α) (hm : FmodSpec fmod) (hpi : 0 < pi)
    (steps : List (α × α)) (hsteps : ∀ s ∈ steps, 0 ≤ s.1 ∧ 0 ≤ s.2) :
    ∀ q ∈ trace_phase pi fmod steps (initial_gait_phase pi),
      InRange pi q ∧ HalfCycle pi q ∧ (q.2 - q.1 = pi ∨ q.2 - q.1 = -pi) := by
  suffices h : ∀ (steps : List (α × α)) (p : α × α), Inv pi p →
      (∀ s ∈ steps, 0 ≤ s.1 ∧ 0 ≤ s.2) → ∀ q ∈ trace_phase pi fmod steps p, Inv pi q by
    intro q hq
    have hi := h steps _ (inv_initial pi hpi) hsteps q hq
    exact ⟨hi.1, hi.2, half_cycle_pm pi hpi q hi⟩
  intro steps
  induction steps with
  | nil =>
      intro p hp _ q hq
      simp only [trace_phase, List.mem_singleton] at hq
      exact hq ▸ hp
  | cons s rest ih =>
      intro p hp hs q hq
      obtain ⟨f, dt⟩ := s
      simp only [trace_phase, List.mem_cons] at hq
      rcases hq with hq | hq
      · exact hq ▸ hp
      · have h0 := hs (f, dt) (by simp)
        exact ih _ (inv_step pi fmod hm hpi p f dt h0.1 h0.2 hp)
          (fun s hs' => hs s (by simp [hs'])) q hq

/-- the final phases of a history are among the visited ones -/
theorem run_mem_trace (pi : α) (fmod : α → α → α) (steps : List (α × α)) (p : α × α) :
    run_phase pi fmod steps p ∈ trace_phase pi fmod steps p := by
  induction steps generalizing p with
  | nil => simp [run_phase, trace_phase]
  | cons s rest ih =>
      obtain ⟨f, dt⟩ := s
      simp only [run_phase, trace_phase, List.mem_cons]
      exact Or.inr (ih _)

/-- the executable clauses decided by the driver on implementation phases hold of the model
    along every history -/
theorem phi_phase_history [DecidableEq α] (pi : α) (fmod : α → α → α) (hm : FmodSpec fmod)
    (hpi : 0 < pi) (steps : List (α × α)) (hsteps : ∀ s ∈ steps, 0 ≤ s.1 ∧ 0 ≤ s.2) :
    ∀ q ∈ trace_phase pi fmod steps (initial_gait_phase pi),
      phiPhaseRange (fun a b => decide (a ≤ b)) pi q = true ∧
      phiHalfCycle (fun a b => decide (a = b)) pi q = true := by
  intro q hq
  obtain ⟨⟨⟨l1, l2⟩, ⟨r1, r2⟩⟩, _, hpm⟩ := phase_half_cycle pi fmod hm hpi steps hsteps q hq
  constructor
  · simp [phiPhaseRange, l1, l2, r1, r2]
  · rcases hpm with h | h <;> simp [phiHalfCycle, h]

end gait

/-! ## desired foot height -/

section foot
variable {α : Type} [Field α] [LinearOrder α] [IsStrictOrderedRing α]

/-- the cubic Bezier blend `3t² − 2t³` stays in `[0, 1]` on `[0, 1]` -/
theorem blend_bounds (t : α) (h0 : 0 ≤ t) (h1 : t ≤ 1) :
    0 ≤ t * t * t + 3 * (t * t * (1 - t)) ∧ t * t * t + 3 * (t * t * (1 - t)) ≤ 1 := by
  have h1' : 0 ≤ 1 - t := by linarith
  have htt : 0 ≤ t * t := mul_nonneg h0 h0
  constructor
  · have := mul_nonneg htt h0
    have := mul_nonneg htt h1'
    linarith
  · have := mul_nonneg (mul_nonneg h1' h1') (by linarith : (0 : α) ≤ 1 + 2 * t)
    nlinarith

/-- **`foot_height_bounds`.**  For every phase in `[-pi, pi]` and swing height `≥ 0` the desired
    foot height lies in `[0, swing_height]`. -/
theorem foot_height_bounds (pi : α) (hpi : 0 < pi) (ph h : α) (hh : 0 ≤ h)
    (hlo : -pi ≤ ph) (hhi : ph ≤ pi) :
    0 ≤ desired_foot_height1 pi ph h ∧ desired_foot_height1 pi ph h ≤ h := by
  have h2pi : 0 < 2 * pi := by linarith
  have hx0 : 0 ≤ (ph + pi) / (2 * pi) := div_nonneg (by linarith) h2pi.le
  have hx1 : (ph + pi) / (2 * pi) ≤ 1 := by rw [div_le_one h2pi]; linarith
  simp only [desired_foot_height1, bezier]
  split_ifs with hc
  · obtain ⟨b0, b1⟩ := blend_bounds (2 * ((ph + pi) / (2 * pi))) (by linarith) (by linarith)
    constructor
    · have := mul_nonneg hh b0
      linarith
    · have := mul_le_mul_of_nonneg_left b1 hh
      linarith
  · have hc' : 1 / 2 < (ph + pi) / (2 * pi) := not_le.mp hc
    obtain ⟨b0, b1⟩ := blend_bounds (2 * ((ph + pi) / (2 * pi)) - 1) (by linarith) (by linarith)
    constructor
    · have := mul_le_mul_of_nonneg_left b1 hh
      linarith
    · have := mul_nonneg hh b0
      linarith

/-- the foot is on the ground at phase `-pi` … -/
theorem foot_height_at_minus_pi (pi : α) (h : α) :
    desired_foot_height1 pi (-pi) h = 0 := by
  simp [desired_foot_height1, bezier]

/-- … reaches the swing height at phase `0` … -/
theorem foot_height_at_zero (pi : α) (hpi : 0 < pi) (h : α) :
    desired_foot_height1 pi 0 h = h := by
  have hne : pi ≠ 0 := ne_of_gt hpi
  have hx : (0 + pi) / (2 * pi) = 1 / 2 := by rw [zero_add]; field_simp
  simp only [desired_foot_height1, hx, le_refl, if_true, bezier]
  ring

/-- … and is back on the ground at phase `+pi`. -/
theorem foot_height_at_pi (pi : α) (hpi : 0 < pi) (h : α) :
    desired_foot_height1 pi pi h = 0 := by
  have hne : pi ≠ 0 := ne_of_gt hpi
  have hx : (pi + pi) / (2 * pi) = 1 := by field_simp; ring
  have hn : ¬ ((1 : α) ≤ 1 / 2) := by norm_num
  simp only [desired_foot_height1, hx, hn, if_false, bezier]
  ring

theorem phi_foot_height (pi : α) (hpi : 0 < pi) (ph h : α) (hh : 0 ≤ h)
    (hlo : -pi ≤ ph) (hhi : ph ≤ pi) :
    phiFootHeight (fun a b => decide (a ≤ b)) h (desired_foot_height1 pi ph h) = true := by
  obtain ⟨a, b⟩ := foot_height_bounds pi hpi ph h hh hlo hhi
  simp [phiFootHeight, a, b]

end foot

/-! ## randomisation -/

section lists
variable {α : Type} [Field α] [LinearOrder α] [IsStrictOrderedRing α]

theorem getD_zipWith_mul (a b : List α) (i : ℕ) (ha : i < a.length) (hb : i < b.length) :
    (List.zipWith (· * ·) a b).getD i 0 = a.getD i 0 * b.getD i 0 := by
  induction a generalizing b i with
  | nil => simp at ha
  | cons x xs ih =>
      cases b with
      | nil => simp at hb
      | cons y ys =>
          cases i with
          | zero => simp
          | succ i =>
              simp only [List.zipWith_cons_cons, List.getD_cons_succ]
              exact ih ys i (by simpa using ha) (by simpa using hb)

theorem getD_mem (a : List α) (i : ℕ) (ha : i < a.length) : a.getD i 0 ∈ a := by
  rw [List.getD_eq_getElem _ _ ha]
  exact List.getElem_mem ha

theorem setFrom6_length (xs new : List α) (hx : freeDofs ≤ xs.length) :
    (setFrom6 xs new).length = freeDofs + new.length := by
  simp [setFrom6, Nat.min_eq_left hx]

theorem setFrom6_lo (xs new : List α) (hx : freeDofs ≤ xs.length) (i : ℕ) (hi : i < freeDofs) :
    (setFrom6 xs new).getD i 0 = xs.getD i 0 := by
  unfold setFrom6
  rw [List.getD_append _ _ _ _ (by simp [Nat.min_eq_left hx]; exact hi)]
  simp [List.getD_eq_getElem?_getD, hi]

theorem setFrom6_hi (xs new : List α) (hx : freeDofs ≤ xs.length) (i : ℕ) (hi : freeDofs ≤ i) :
    (setFrom6 xs new).getD i 0 = new.getD (i - freeDofs) 0 := by
  unfold setFrom6
  rw [List.getD_append_right _ _ _ _ (by simp [Nat.min_eq_left hx]; exact hi)]
  simp [Nat.min_eq_left hx]

theorem scaled_in_range (n s lo hi : α) (hn : 0 ≤ n) (h1 : lo ≤ s) (h2 : s ≤ hi) :
    n * lo ≤ n * s ∧ n * s ≤ n * hi :=
  ⟨mul_le_mul_of_nonneg_left h1 hn, mul_le_mul_of_nonneg_left h2 hn⟩

/-- entries of `x.at[pairs, 0:2].set(friction)` -/
theorem setFriction_length (pairs : List ℕ) (fr : α) (pf : List (List α)) :
    (setFriction pairs fr pf).length = pf.length := by
  simp [setFriction]

theorem setFriction_row (pairs : List ℕ) (fr : α) (pf : List (List α)) (i : ℕ)
    (hi : i < pf.length) :
    (setFriction pairs fr pf).getD i [] =
      if pairs.contains i then (pf.getD i []).mapIdx (fun j x => if j < 2 then fr else x)
      else pf.getD i [] := by
  simp [setFriction, List.getD_eq_getElem?_getD, hi]

theorem getD_mapIdx (l : List α) (f : ℕ → α → α) (j : ℕ) (hj : j < l.length) :
    (l.mapIdx f).getD j 0 = f j (l.getD j 0) := by
  simp [List.getD_eq_getElem?_getD, List.getElem?_mapIdx, List.getElem?_eq_getElem hj]

theorem setFriction_entry (pairs : List ℕ) (fr : α) (pf : List (List α)) (i j : ℕ)
    (hi : i < pf.length) (hj : j < (pf.getD i []).length) :
    ((setFriction pairs fr pf).getD i []).length = (pf.getD i []).length ∧
    ((setFriction pairs fr pf).getD i []).getD j 0 =
      if pairs.contains i && decide (j < 2) then fr else (pf.getD i []).getD j 0 := by
  rw [setFriction_row pairs fr pf i hi]
  by_cases hc : pairs.contains i = true
  · simp only [hc, if_true, List.length_mapIdx, true_and, Bool.true_and, decide_eq_true_eq]
    rw [getD_mapIdx _ _ _ hj]
  · have hc' : pairs.contains i = false := by simpa using hc
    simp only [hc', Bool.false_and, Bool.false_eq_true, if_false, and_self]

end lists

section randomize
variable {α : Type} [Field α] [LinearOrder α] [IsStrictOrderedRing α] {Rest : Type}

/-- the draws lie in their configured ranges (`jr.uniform(minval, maxval) ∈ [minval, maxval)`;
    only the closed range is needed) -/
structure DrawsInRange (rr : RandRanges α) (d : Draws α) : Prop where
  friction : rr.friction.1 ≤ d.friction ∧ d.friction ≤ rr.friction.2
  floss : ∀ s ∈ d.floss_scales, rr.floss.1 ≤ s ∧ s ≤ rr.floss.2
  armature : ∀ s ∈ d.armature_scales, rr.armature.1 ≤ s ∧ s ≤ rr.armature.2
  mass : ∀ s ∈ d.mass_scales, rr.mass.1 ≤ s ∧ s ≤ rr.mass.2
  torso : rr.torso_offset.1 ≤ d.torso_offset ∧ d.torso_offset ≤ rr.torso_offset.2

/-- shapes as JAX checks them (`shape=(num_actuated,)`, `shape=(model.nbody,)`, `x.at[6:].set`)
    and non-negative nominal values -/
structure WellFormed (base : Model α Rest) (nom : Nominal α) (d : Draws α) : Prop where
  floss_len : base.dof_frictionloss.length = freeDofs + nom.friction_loss.length
  arm_len : base.dof_armature.length = freeDofs + nom.armature.length
  floss_draws : d.floss_scales.length = nom.friction_loss.length
  arm_draws : d.armature_scales.length = nom.armature.length
  mass_draws : d.mass_scales.length = nom.body_mass.length
  floss_nonneg : ∀ x ∈ nom.friction_loss, 0 ≤ x
  arm_nonneg : ∀ x ∈ nom.armature, 0 ≤ x
  mass_nonneg : ∀ x ∈ nom.body_mass, 0 ≤ x

/-- the fields of the randomised model, spelled out -/
theorem randomize_model_fields (base : Model α Rest) (nom : Nominal α) (d : Draws α) :
    (randomize_model base nom d).pair_friction
      = setFriction nom.foot_pair_ids d.friction base.pair_friction ∧
    (randomize_model base nom d).dof_frictionloss
      = setFrom6 base.dof_frictionloss (List.zipWith (· * ·) nom.friction_loss d.floss_scales) ∧
    (randomize_model base nom d).dof_armature
      = setFrom6 base.dof_armature (List.zipWith (· * ·) nom.armature d.armature_scales) ∧
    (randomize_model base nom d).body_mass
      = (List.zipWith (· * ·) nom.body_mass d.mass_scales).set nom.torso_body_id
          ((List.zipWith (· * ·) nom.body_mass d.mass_scales).getD nom.torso_body_id 0
            + d.torso_offset) ∧
    (randomize_model base nom d).rest = base.rest :=
  ⟨rfl, rfl, rfl, rfl, rfl⟩

/-- per-DOF field after `x.at[6:].set(nominal * scales)` -/
theorem dof_entry (r : α × α) (xs nominal scales : List α)
    (hlen : xs.length = freeDofs + nominal.length) (hs : scales.length = nominal.length)
    (hnn : ∀ x ∈ nominal, 0 ≤ x) (hr : ∀ s ∈ scales, r.1 ≤ s ∧ s ≤ r.2) :
    (setFrom6 xs (List.zipWith (· * ·) nominal scales)).length = xs.length ∧
    ∀ i, i < xs.length →
      (i < freeDofs → (setFrom6 xs (List.zipWith (· * ·) nominal scales)).getD i 0 = xs.getD i 0) ∧
      (freeDofs ≤ i →
        nominal.getD (i - freeDofs) 0 * r.1
          ≤ (setFrom6 xs (List.zipWith (· * ·) nominal scales)).getD i 0 ∧
        (setFrom6 xs (List.zipWith (· * ·) nominal scales)).getD i 0
          ≤ nominal.getD (i - freeDofs) 0 * r.2) := by
  have hx : freeDofs ≤ xs.length := by omega
  refine ⟨by rw [setFrom6_length _ _ hx]; simp [hs, hlen], ?_⟩
  intro i hi
  refine ⟨fun h => setFrom6_lo _ _ hx i h, fun h => ?_⟩
  rw [setFrom6_hi _ _ hx i h]
  have h1 : i - freeDofs < nominal.length := by omega
  have h2 : i - freeDofs < scales.length := by omega
  rw [getD_zipWith_mul _ _ _ h1 h2]
  obtain ⟨a, b⟩ := hr _ (getD_mem scales _ h2)
  exact scaled_in_range _ _ _ _ (hnn _ (getD_mem nominal _ h1)) a b

/-- body masses after scaling and the torso offset -/
theorem mass_entry (r off : α × α) (nominal scales : List α) (torso : ℕ) (o : α)
    (hs : scales.length = nominal.length) (hnn : ∀ x ∈ nominal, 0 ≤ x)
    (hr : ∀ s ∈ scales, r.1 ≤ s ∧ s ≤ r.2) (ho : off.1 ≤ o ∧ o ≤ off.2) :
    let bm := List.zipWith (· * ·) nominal scales
    let out := bm.set torso (bm.getD torso 0 + o)
    out.length = nominal.length ∧
    ∀ i, i < nominal.length →
      (i = torso → nominal.getD i 0 * r.1 + off.1 ≤ out.getD i 0 ∧
                   out.getD i 0 ≤ nominal.getD i 0 * r.2 + off.2) ∧
      (i ≠ torso → nominal.getD i 0 * r.1 ≤ out.getD i 0 ∧
                   out.getD i 0 ≤ nominal.getD i 0 * r.2) := by
  intro bm out
  have hbl : bm.length = nominal.length := by simp [bm, hs]
  refine ⟨by simp [out, hbl], ?_⟩
  intro i hi
  have h2 : i < scales.length := by omega
  have hsc := scaled_in_range _ _ _ _ (hnn _ (getD_mem nominal _ hi)) (hr _ (getD_mem scales _ h2)).1
    (hr _ (getD_mem scales _ h2)).2
  have hz : bm.getD i 0 = nominal.getD i 0 * scales.getD i 0 := getD_zipWith_mul _ _ _ hi h2
  constructor
  · intro heq
    subst heq
    have : out.getD i 0 = bm.getD i 0 + o := by
      simp [out, List.getD_eq_getElem?_getD, hbl, hi]
    rw [this, hz]
    constructor <;> linarith [hsc.1, hsc.2, ho.1, ho.2]
  · intro hne
    have : out.getD i 0 = bm.getD i 0 := by
      simp [out, List.getD_eq_getElem?_getD, Ne.symm hne]
    rw [this, hz]
    exact hsc

/-- **`randomized_in_range`.**  For draws within their ranges and non-negative nominal values:
    the friction of the foot/floor pairs lies in `[lo, hi]`; friction loss and armature of every
    actuated DOF lie between `nominal·lo` and `nominal·hi`; every body mass lies between
    `nominal·lo` and `nominal·hi`, the torso's between `nominal·lo + off_lo` and
    `nominal·hi + off_hi`. -/
theorem randomized_in_range (rr : RandRanges α) (base : Model α Rest) (nom : Nominal α)
    (d : Draws α) (hd : DrawsInRange rr d) (hw : WellFormed base nom d) :
    let out := randomize_model base nom d
    (∀ i j, i < base.pair_friction.length → j < (base.pair_friction.getD i []).length →
        i ∈ nom.foot_pair_ids → j < 2 →
        rr.friction.1 ≤ (out.pair_friction.getD i []).getD j 0 ∧
        (out.pair_friction.getD i []).getD j 0 ≤ rr.friction.2) ∧
    (∀ i, freeDofs ≤ i → i < base.dof_frictionloss.length →
        nom.friction_loss.getD (i - freeDofs) 0 * rr.floss.1 ≤ out.dof_frictionloss.getD i 0 ∧
        out.dof_frictionloss.getD i 0 ≤ nom.friction_loss.getD (i - freeDofs) 0 * rr.floss.2) ∧
    (∀ i, freeDofs ≤ i → i < base.dof_armature.length →
        nom.armature.getD (i - freeDofs) 0 * rr.armature.1 ≤ out.dof_armature.getD i 0 ∧
        out.dof_armature.getD i 0 ≤ nom.armature.getD (i - freeDofs) 0 * rr.armature.2) ∧
    (∀ i, i < nom.body_mass.length → i ≠ nom.torso_body_id →
        nom.body_mass.getD i 0 * rr.mass.1 ≤ out.body_mass.getD i 0 ∧
        out.body_mass.getD i 0 ≤ nom.body_mass.getD i 0 * rr.mass.2) ∧
    (nom.torso_body_id < nom.body_mass.length →
        nom.body_mass.getD nom.torso_body_id 0 * rr.mass.1 + rr.torso_offset.1
          ≤ out.body_mass.getD nom.torso_body_id 0 ∧
        out.body_mass.getD nom.torso_body_id 0
          ≤ nom.body_mass.getD nom.torso_body_id 0 * rr.mass.2 + rr.torso_offset.2) := by
  intro out
  obtain ⟨e1, e2, e3, e4, _⟩ := randomize_model_fields base nom d
  refine ⟨?_, ?_, ?_, ?_, ?_⟩
  · intro i j hi hj hmem hj2
    have := (setFriction_entry nom.foot_pair_ids d.friction base.pair_friction i j hi hj).2
    simp only [out, e1, this]
    have hc : nom.foot_pair_ids.contains i = true := by simpa using hmem
    simp only [hc, hj2, decide_true, Bool.and_self, if_true]
    exact hd.friction
  · intro i h6 hi
    simp only [out, e2]
    exact ((dof_entry rr.floss _ _ _ hw.floss_len hw.floss_draws hw.floss_nonneg hd.floss).2 i hi).2 h6
  · intro i h6 hi
    simp only [out, e3]
    exact ((dof_entry rr.armature _ _ _ hw.arm_len hw.arm_draws hw.arm_nonneg hd.armature).2 i hi).2 h6
  · intro i hi hne
    simp only [out, e4]
    exact ((mass_entry rr.mass rr.torso_offset _ _ nom.torso_body_id d.torso_offset hw.mass_draws
      hw.mass_nonneg hd.mass hd.torso).2 i hi).2 hne
  · intro ht
    simp only [out, e4]
    exact ((mass_entry rr.mass rr.torso_offset _ _ nom.torso_body_id d.torso_offset hw.mass_draws
      hw.mass_nonneg hd.mass hd.torso).2 _ ht).1 rfl

/-- **`randomize_frame`.**  Everything that is not named stays nominal: the rest of the model,
    the friction of every other contact pair and every other friction column, the free-joint
    DOFs of friction loss and armature; shapes are preserved. -/
theorem randomize_frame (base : Model α Rest) (nom : Nominal α) (d : Draws α)
    (hw : WellFormed base nom d) :
    let out := randomize_model base nom d
    out.rest = base.rest ∧
    out.pair_friction.length = base.pair_friction.length ∧
    (∀ i j, i < base.pair_friction.length → j < (base.pair_friction.getD i []).length →
        (out.pair_friction.getD i []).length = (base.pair_friction.getD i []).length ∧
        (¬ (i ∈ nom.foot_pair_ids ∧ j < 2) →
          (out.pair_friction.getD i []).getD j 0 = (base.pair_friction.getD i []).getD j 0)) ∧
    out.dof_frictionloss.length = base.dof_frictionloss.length ∧
    out.dof_armature.length = base.dof_armature.length ∧
    out.body_mass.length = nom.body_mass.length ∧
    (∀ i, i < freeDofs →
        out.dof_frictionloss.getD i 0 = base.dof_frictionloss.getD i 0 ∧
        out.dof_armature.getD i 0 = base.dof_armature.getD i 0) := by
  intro out
  obtain ⟨e1, e2, e3, e4, e5⟩ := randomize_model_fields base nom d
  have h6f : freeDofs ≤ base.dof_frictionloss.length := by have := hw.floss_len; omega
  have h6a : freeDofs ≤ base.dof_armature.length := by have := hw.arm_len; omega
  refine ⟨e5, by rw [show out.pair_friction = _ from e1, setFriction_length], ?_, ?_, ?_, ?_, ?_⟩
  · intro i j hi hj
    obtain ⟨hl, he⟩ := setFriction_entry nom.foot_pair_ids d.friction base.pair_friction i j hi hj
    simp only [out, e1]
    refine ⟨hl, fun hn => ?_⟩
    rw [he]
    have hc : (nom.foot_pair_ids.contains i && decide (j < 2)) = false := by
      by_contra hcon
      simp only [Bool.not_eq_false, Bool.and_eq_true, decide_eq_true_eq] at hcon
      exact hn ⟨by simpa using hcon.1, hcon.2⟩
    rw [hc]; rfl
  · simp only [out, e2]
    rw [setFrom6_length _ _ h6f]; simp [hw.floss_draws, hw.floss_len]
  · simp only [out, e3]
    rw [setFrom6_length _ _ h6a]; simp [hw.arm_draws, hw.arm_len]
  · simp only [out, e4]; simp [hw.mass_draws]
  · intro i hi
    simp only [out, e2, e3]
    exact ⟨setFrom6_lo _ _ h6f i hi, setFrom6_lo _ _ h6a i hi⟩

/-- **Φ is true of the model**: the executable checker that the driver evaluates on the
    implementation's randomised model returns `true` on the model's, with exact comparisons. -/
theorem phi_randomize_model [DecidableEq Rest] (rr : RandRanges α) (base : Model α Rest)
    (nom : Nominal α) (d : Draws α) (hd : DrawsInRange rr d) (hw : WellFormed base nom d) :
    phiRandomize (fun a b => decide (a = b)) (fun a b => decide (a ≤ b))
      (fun a b => decide (a = b)) rr nom base (randomize_model base nom d) = true := by
  obtain ⟨r1, r2, r3, r4, r5⟩ := randomized_in_range rr base nom d hd hw
  obtain ⟨f1, f2, f3, f4, f5, f6, f7⟩ := randomize_frame base nom d hw
  simp only [phiRandomize, phiRandomizeClauses, List.all_cons, List.all_nil, Bool.and_true,
    Bool.and_eq_true]
  refine ⟨?_, ?_, ?_, ?_, ?_⟩
  · simp only [phiFriction, Bool.and_eq_true, beq_iff_eq, List.all_eq_true, List.mem_range]
    refine ⟨f2, fun i hi => ⟨?_, fun j hj => ?_⟩⟩
    · by_cases hz : 0 < (base.pair_friction.getD i []).length
      · exact (f3 i 0 hi hz).1
      · have hb : base.pair_friction.getD i [] = [] := List.eq_nil_of_length_eq_zero (by omega)
        have := setFriction_row nom.foot_pair_ids d.friction base.pair_friction i hi
        rw [(randomize_model_fields base nom d).1, this, hb]
        split_ifs <;> simp
    · by_cases hc : nom.foot_pair_ids.contains i = true ∧ decide (j < 2) = true
      · rw [if_pos hc]
        simp only [inRange, Bool.and_eq_true, decide_eq_true_eq]
        exact r1 i j hi hj (by simpa using hc.1) (by simpa using hc.2)
      · rw [if_neg hc]
        simp only [decide_eq_true_eq]
        exact (f3 i j hi hj).2 (fun hcon => hc ⟨by simpa using hcon.1, by simpa using hcon.2⟩)
  · simp only [phiDof, Bool.and_eq_true, beq_iff_eq, List.all_eq_true, List.mem_range]
    refine ⟨⟨f4, hw.floss_len⟩, fun i hi => ?_⟩
    split_ifs with h6
    · simpa using (f7 i h6).1
    · simpa [inScaled] using r2 i (by omega) hi
  · simp only [phiDof, Bool.and_eq_true, beq_iff_eq, List.all_eq_true, List.mem_range]
    refine ⟨⟨f5, hw.arm_len⟩, fun i hi => ?_⟩
    split_ifs with h6
    · simpa using (f7 i h6).2
    · simpa [inScaled] using r3 i (by omega) hi
  · simp only [phiMass, Bool.and_eq_true, beq_iff_eq, List.all_eq_true, List.mem_range]
    refine ⟨f6, fun i hi => ?_⟩
    split_ifs with ht
    · subst ht
      simpa using r5 hi
    · simpa [inScaled] using r4 i hi ht
  · simpa using f1

end randomize

/-! ## episode start -/

section initial
variable {α : Type} [Field α] [LinearOrder α] [IsStrictOrderedRing α] {Q X Rest : Type}

/-- the command / frequency draws lie in their configured ranges -/
structure CmdInRange (r : CmdRanges α) (c : CmdDraws α) : Prop where
  vx : r.vx.1 ≤ c.vx ∧ c.vx ≤ r.vx.2
  vy : r.vy.1 ≤ c.vy ∧ c.vy ≤ r.vy.2
  yaw : r.yaw.1 ≤ c.yaw ∧ c.yaw ≤ r.yaw.2
  freq : r.freq.1 ≤ c.freq ∧ c.freq ≤ r.freq.2

/-- **`command_in_range`.**  The locomotion command is the zero command (drawn with
    `zero_command_probability`) or has every component within its range; whenever the ranges
    contain 0 (the defaults do) every component is within its range in both cases. -/
theorem command_in_range (r : CmdRanges α) (c : CmdDraws α) (hc : CmdInRange r c) :
    (sample_command Task.locomotion c = [0, 0, 0] ∨
      ∃ vx vy yaw, sample_command Task.locomotion c = [vx, vy, yaw] ∧
        (r.vx.1 ≤ vx ∧ vx ≤ r.vx.2) ∧ (r.vy.1 ≤ vy ∧ vy ≤ r.vy.2) ∧
        (r.yaw.1 ≤ yaw ∧ yaw ≤ r.yaw.2)) ∧
    ((r.vx.1 ≤ 0 ∧ 0 ≤ r.vx.2) → (r.vy.1 ≤ 0 ∧ 0 ≤ r.vy.2) → (r.yaw.1 ≤ 0 ∧ 0 ≤ r.yaw.2) →
      ∃ vx vy yaw, sample_command Task.locomotion c = [vx, vy, yaw] ∧
        (r.vx.1 ≤ vx ∧ vx ≤ r.vx.2) ∧ (r.vy.1 ≤ vy ∧ vy ≤ r.vy.2) ∧
        (r.yaw.1 ≤ yaw ∧ yaw ≤ r.yaw.2)) := by
  cases hz : c.zero
  · refine ⟨Or.inr ⟨c.vx, c.vy, c.yaw, by simp [sample_command, hz], hc.vx, hc.vy, hc.yaw⟩, ?_⟩
    intro _ _ _
    exact ⟨c.vx, c.vy, c.yaw, by simp [sample_command, hz], hc.vx, hc.vy, hc.yaw⟩
  · refine ⟨Or.inl (by simp [sample_command, hz]), ?_⟩
    intro h1 h2 h3
    exact ⟨0, 0, 0, by simp [sample_command, hz], h1, h2, h3⟩

/-- **`frequency_in_range`.**  The locomotion gait frequency lies within its range. -/
theorem frequency_in_range (r : CmdRanges α) (c : CmdDraws α) (hc : CmdInRange r c) :
    r.freq.1 ≤ sample_frequency Task.locomotion c ∧
    sample_frequency Task.locomotion c ≤ r.freq.2 := hc.freq

/-- **`standing_command_zero`.**  The standing and stand-up tasks always start with the zero
    command (and a zero gait frequency), whatever the draws. -/
theorem standing_command_zero (task : Task) (ht : task ≠ Task.locomotion) (c : CmdDraws α) :
    sample_command task c = [0, 0, 0] ∧ sample_frequency task c = 0 := by
  cases task <;> simp_all [sample_command, sample_frequency]

/-- Φ (command, frequency) is true of the model -/
theorem phi_command_frequency (task : Task) (r : CmdRanges α) (c : CmdDraws α)
    (hc : CmdInRange r c) :
    phiCommand (fun a b => decide (a = b)) (fun a b => decide (a ≤ b)) task r
      (sample_command task c) = true ∧
    phiFrequency (fun a b => decide (a = b)) (fun a b => decide (a ≤ b)) task r
      (sample_frequency task c) = true := by
  cases task
  · cases hz : c.zero
    · simp [phiCommand, phiFrequency, sample_command, sample_frequency, hz, inRange,
        hc.vx, hc.vy, hc.yaw, hc.freq]
    · simp [phiCommand, phiFrequency, sample_command, sample_frequency, hz, inRange, isZero,
        hc.freq]
  · simp [phiCommand, phiFrequency, sample_command, sample_frequency, isZero]
  · simp [phiCommand, phiFrequency, sample_command, sample_frequency, isZero]

/-- **`initial_kin_coherent`.**  The derived positions of the initial state are the forward
    kinematics of *its own* joint configuration under *its own* (randomised) model — i.e. the
    snap to the ground is followed by a recomputation — and the joint configuration is the
    perturbed one shifted vertically by `clearance − lowest point`. -/
theorem initial_kin_coherent (task : Task) (pi : α) (FK : Model α Rest → Q → X) (lowest : X → α)
    (shiftZ : Q → α → Q) (clearance : α) (base : Model α Rest) (nom : Nominal α)
    (d : Draws α) (q0 : Q) (c : CmdDraws α) :
    let s := initial task pi FK lowest shiftZ clearance base nom d q0 c
    s.sim.xpos = FK s.model s.sim.qpos ∧
    s.model = randomize_model base nom d ∧
    s.sim.qpos = shiftZ q0 ((0 - lowest (FK s.model q0)) + clearance) ∧
    s.gait_phase = (0, pi) ∧ s.step_count = 0 :=
  ⟨rfl, rfl, rfl, rfl, rfl⟩

/-- if the lowest point moves with the vertical shift (which is what a rigid vertical
    translation does), the snapped configuration's lowest point sits at `clearance` -/
theorem initial_clearance (task : Task) (pi : α) (FK : Model α Rest → Q → X) (lowest : X → α)
    (shiftZ : Q → α → Q) (clearance : α) (base : Model α Rest) (nom : Nominal α)
    (d : Draws α) (q0 : Q) (c : CmdDraws α)
    (hshift : ∀ m q z, lowest (FK m (shiftZ q z)) = lowest (FK m q) + z) :
    lowest (initial task pi FK lowest shiftZ clearance base nom d q0 c).sim.xpos = clearance := by
  simp only [initial, snap_to_ground, forward, hshift]
  ring

/-- **the start of every episode of every task**: randomised model within range and framed,
    command / frequency clauses, coherent kinematics, initial phases `[0, pi]`. -/
theorem initial_spec [DecidableEq Rest] (task : Task) (pi : α) (FK : Model α Rest → Q → X)
    (lowest : X → α) (shiftZ : Q → α → Q) (clearance : α) (rr : RandRanges α) (cr : CmdRanges α)
    (base : Model α Rest) (nom : Nominal α) (d : Draws α) (q0 : Q) (c : CmdDraws α)
    (hd : DrawsInRange rr d) (hw : WellFormed base nom d) (hc : CmdInRange cr c) :
    let s := initial task pi FK lowest shiftZ clearance base nom d q0 c
    phiRandomize (fun a b => decide (a = b)) (fun a b => decide (a ≤ b))
      (fun a b => decide (a = b)) rr nom base s.model = true ∧
    phiCommand (fun a b => decide (a = b)) (fun a b => decide (a ≤ b)) task cr s.command = true ∧
    phiFrequency (fun a b => decide (a = b)) (fun a b => decide (a ≤ b)) task cr
      s.gait_frequency = true ∧
    s.sim.xpos = FK s.model s.sim.qpos ∧
    s.gait_phase = initial_gait_phase pi :=
  ⟨phi_randomize_model rr base nom d hd hw, (phi_command_frequency task cr c hc).1,
   (phi_command_frequency task cr c hc).2, rfl, rfl⟩

/-! ### the gait clock along an episode -/

theorem episode_fields (pi : α) (fmod : α → α → α) (dt : α) (sims : List (Sim Q X))
    (s : State α Q X Rest) :
    (episode pi fmod dt sims s).gait_frequency = s.gait_frequency ∧
    (episode pi fmod dt sims s).command = s.command ∧
    (episode pi fmod dt sims s).model = s.model ∧
    (episode pi fmod dt sims s).step_count = s.step_count + sims.length ∧
    (episode pi fmod dt sims s).gait_phase =
      run_phase pi fmod (List.replicate sims.length (s.gait_frequency, dt)) s.gait_phase := by
  induction sims generalizing s with
  | nil => simp [episode, run_phase]
  | cons x xs ih =>
      obtain ⟨h1, h2, h3, h4, h5⟩ := ih (transition pi fmod dt s x)
      simp only [episode, List.length_cons, List.replicate_succ, run_phase]
      refine ⟨by rw [h1]; rfl, by rw [h2]; rfl, by rw [h3]; rfl, by rw [h4]; simp [transition]; omega, ?_⟩
      rw [h5]; rfl

/-- **the gait clock of every episode**: for every task, every draw, every control period
    `dt ≥ 0` and every number of control steps (whatever the physics does), the per-episode
    frequency, command and randomised model are carried unchanged, the step counter counts the
    steps, both phases lie in `[-pi, pi]` and are exactly half a cycle (`±pi`) apart. -/
theorem episode_phase_coherent (task : Task) (pi : α) (fmod : α → α → α) (hm : FmodSpec fmod)
    (hpi : 0 < pi) (dt : α) (hdt : 0 ≤ dt) (FK : Model α Rest → Q → X) (lowest : X → α)
    (shiftZ : Q → α → Q) (clearance : α) (cr : CmdRanges α) (hcr : 0 ≤ cr.freq.1)
    (base : Model α Rest) (nom : Nominal α) (d : Draws α) (q0 : Q) (c : CmdDraws α)
    (hc : CmdInRange cr c) (sims : List (Sim Q X)) :
    let s0 := initial task pi FK lowest shiftZ clearance base nom d q0 c
    let s := episode pi fmod dt sims s0
    s.gait_frequency = s0.gait_frequency ∧ s.command = s0.command ∧ s.model = s0.model ∧
    s.step_count = sims.length ∧
    InRange pi s.gait_phase ∧ HalfCycle pi s.gait_phase ∧
    (s.gait_phase.2 - s.gait_phase.1 = pi ∨ s.gait_phase.2 - s.gait_phase.1 = -pi) := by
  intro s0 s
  obtain ⟨h1, h2, h3, h4, h5⟩ := episode_fields pi fmod dt sims s0
  have hf : 0 ≤ s0.gait_frequency := by
    show 0 ≤ sample_frequency task c
    cases task
    · exact le_trans hcr hc.freq.1
    · simp [sample_frequency]
    · simp [sample_frequency]
  refine ⟨h1, h2, h3, by rw [h4]; simp [s0, initial], ?_⟩
  have hmem := run_mem_trace pi fmod (List.replicate sims.length (s0.gait_frequency, dt))
    (initial_gait_phase pi)
  have := phase_half_cycle pi fmod hm hpi (List.replicate sims.length (s0.gait_frequency, dt))
    (fun x hx => by rw [(List.mem_replicate.mp hx).2]; exact ⟨hf, hdt⟩) _ hmem
  have e : s.gait_phase = run_phase pi fmod
      (List.replicate sims.length (s0.gait_frequency, dt)) (initial_gait_phase pi) := h5
  rw [e]
  exact this

end initial

/-! ## the `fmod` contract holds in every floor ring, in particular in ℝ -/

section floor
variable {α : Type} [Field α] [LinearOrder α] [IsStrictOrderedRing α] [FloorRing α]

/-- C's `fmod` for a non-negative dividend and a positive divisor: `a − p·⌊a/p⌋` -/
def floorFmod (a p : α) : α := a - p * (⌊a / p⌋ : α)

theorem floorFmod_spec : FmodSpec (floorFmod : α → α → α) := by
  refine ⟨fun a p ha hp => ?_⟩
  have hq : 0 ≤ a / p := div_nonneg ha hp.le
  have hfl : (⌊a / p⌋ : α) ≤ a / p := Int.floor_le _
  have hlt : a / p < (⌊a / p⌋ : α) + 1 := Int.lt_floor_add_one _
  have hk0 : 0 ≤ ⌊a / p⌋ := Int.floor_nonneg.mpr hq
  have e : a = p * (a / p) := by field_simp
  refine ⟨?_, ?_, ⌊a / p⌋.toNat, ?_⟩
  · have := mul_le_mul_of_nonneg_left hfl hp.le
    simp only [floorFmod]; linarith
  · have := mul_lt_mul_of_pos_left hlt hp
    simp only [floorFmod]; linarith
  · have hc : ((⌊a / p⌋.toNat : ℕ) : α) = ((⌊a / p⌋ : ℤ) : α) := by
      have : ((⌊a / p⌋.toNat : ℕ) : ℤ) = ⌊a / p⌋ := Int.toNat_of_nonneg hk0
      exact_mod_cast congrArg (fun z : ℤ => (z : α)) this
    rw [hc]; simp only [floorFmod]; ring

/-- the gait-clock theorems, specialised to ℝ with `fmod a p = a − p·⌊a/p⌋` (any `pi > 0`,
    in particular `Real.pi`): along every history from `[0, pi]` the phases stay in `[-pi, pi]`
    and `±pi` apart. -/
theorem phase_half_cycle_real (pi : ℝ) (hpi : 0 < pi) (steps : List (ℝ × ℝ))
    (hsteps : ∀ s ∈ steps, 0 ≤ s.1 ∧ 0 ≤ s.2) :
    ∀ q ∈ trace_phase pi floorFmod steps (initial_gait_phase pi),
      InRange pi q ∧ HalfCycle pi q ∧ (q.2 - q.1 = pi ∨ q.2 - q.1 = -pi) :=
  phase_half_cycle pi floorFmod floorFmod_spec hpi steps hsteps

end floor

/-! ## non-vacuity: concrete instances over ℚ (with `pi := 3`, any positive number will do) -/

section nonvacuity

example : FmodSpec (floorFmod : ℚ → ℚ → ℚ) := floorFmod_spec

example : desired_foot_height1 (3 : ℚ) (-3 / 2) 1 = 1 / 2 := by
  norm_num [desired_foot_height1, bezier]

example : desired_foot_height1 (3 : ℚ) (3 / 2) 1 = 1 / 2 := by
  norm_num [desired_foot_height1, bezier]

example : advance_gait_phase (3 : ℚ) floorFmod (0, 3) (1 / 4) 1 = (3 / 2, -3 / 2) := by
  norm_num [advance_gait_phase, advance1, floorFmod]

def base0 : Model ℚ String :=
  { pair_friction := [[1, 1, 5], [1, 1, 5], [1, 1, 5]],
    dof_frictionloss := [0, 0, 0, 0, 0, 0, 1 / 10, 1 / 10],
    dof_armature := [0, 0, 0, 0, 0, 0, 1 / 100, 2 / 100],
    body_mass := [0, 4, 8], rest := "rest" }
def nom0 : Nominal ℚ :=
  { friction_loss := [1 / 10, 1 / 10], armature := [1 / 100, 2 / 100], body_mass := [0, 4, 8],
    torso_body_id := 2, foot_pair_ids := [1, 2] }
def rr0 : RandRanges ℚ :=
  { friction := (2 / 5, 1), floss := (1 / 2, 2), armature := (1, 21 / 20), mass := (9 / 10, 11 / 10),
    torso_offset := (-1, 1) }
def d0 : Draws ℚ :=
  { friction := 1 / 2, floss_scales := [1 / 2, 2], armature_scales := [1, 21 / 20],
    mass_scales := [1, 9 / 10, 11 / 10], torso_offset := -1 }

example : (randomize_model base0 nom0 d0).body_mass = [0, 18 / 5, 39 / 5] := by
  norm_num [randomize_model, randomize_body_mass, randomize_armature, randomize_friction_loss, randomize_friction, base0, nom0, d0]

example : (randomize_model base0 nom0 d0).pair_friction = [[1, 1, 5], [1 / 2, 1 / 2, 5], [1 / 2, 1 / 2, 5]] := by
  simp [randomize_model, randomize_body_mass, randomize_armature, randomize_friction_loss,
    randomize_friction, setFriction, base0, nom0, d0, List.mapIdx_cons]

example : DrawsInRange rr0 d0 := by
  constructor <;> norm_num [rr0, d0]

example : WellFormed base0 nom0 d0 := by
  constructor <;> norm_num [base0, nom0, d0, freeDofs]

example : CmdInRange (⟨(-1, 1), (-1 / 2, 1 / 2), (-1, 1), (5 / 4, 3 / 2)⟩ : CmdRanges ℚ)
    ⟨1 / 2, -1 / 4, 1, false, 11 / 8⟩ := by
  constructor <;> norm_num

/-- the hypotheses of the history theorem are satisfiable and its conclusion is not trivial:
    three steps at `f·dt = 1/4` take `[0, 3]` to `[-3/2, 3/2]` through a wrap of each phase -/
example : run_phase (3 : ℚ) floorFmod [(1 / 4, 1), (1 / 4, 1), (1 / 4, 1)] (initial_gait_phase 3)
    = (-3 / 2, 3 / 2) := by
  norm_num [run_phase, advance_gait_phase, advance1, floorFmod, initial_gait_phase]

end nonvacuity

end Lerax.C20
