/-
  C17 (MuJoCo) — assembly equality lerax ↔ Gymnasium v5 for all 11 environments, observation
  layout length (reused by C02) and coherence of the cached kinematics.

  `…L` = lerax, `…G` = Gymnasium (`LeraxModel/Mujoco.lean`).  Every theorem holds for ALL values
  of the physical quantities (`Phys`: whatever MJX / MuJoCo computed), all actions, all values
  of the documented constructor options (`Cfg`), over any commutative ring / ordered field.
  Side conditions are spelled out and are facts about the model dimensions (e.g. `nq ≥ 3`) or
  about the relation between the two APIs' inputs (`data.ctrl = action`).
-/
import LeraxModel.Mujoco
import Mathlib.Algebra.Order.Field.Basic
import Mathlib.Tactic.Ring
import Mathlib.Tactic.Linarith
import Mathlib.Tactic.NormNum

namespace Lerax.C17
open Lerax.Mujoco Lerax.Classic

set_option linter.unusedSectionVars false
set_option linter.unusedVariables false
set_option linter.unnecessarySeqFocus false

variable {α : Type} [Field α] [LinearOrder α] [IsStrictOrderedRing α]

/-! ### list helpers -/

theorem at'_append_left (xs ys : List α) (i : Nat) (h : i < xs.length) :
    at' (xs ++ ys) i = at' xs i := by
  simp [at', List.getD, List.getElem?_append_left h]

theorem flat_length (rows : List (List α)) (k : Nat) (h : ∀ r ∈ rows, r.length = k) :
    (flat rows).length = rows.length * k := by
  induction rows with
  | nil => simp [flat]
  | cons r rs ih =>
      have hr : r.length = k := h r (by simp)
      have := ih (fun r' hr' => h r' (by simp [hr']))
      simp only [flat] at this ⊢
      simp [List.flatten_cons, hr, this, Nat.add_mul, Nat.add_comm]

theorem row_length (rows : List (List α)) (k i : Nat) (h : ∀ r ∈ rows, r.length = k)
    (hi : i < rows.length) : (row rows i).length = k := by
  have : row rows i = rows[i] := by simp [row, List.getD, List.getElem?_eq_getElem hi]
  rw [this]
  exact h _ (List.getElem_mem hi)

/-! ### InvertedPendulum -/

theorem invertedPendulum_obs_eq (c : Cfg α) (p : Phys α) : ipObsL c p = ipObsG c p := rfl

theorem invertedPendulum_terminated_eq (c : Cfg α) (p : Phys α) (hq : 2 ≤ p.qpos.length) :
    ipTermL c p = ipTermG c p := by
  simp only [ipTermL, ipTermG, ipHealthyL, at'_append_left p.qpos p.qvel 1 (by omega)]
  cases p.finite
  · simp
  · by_cases h : lit 2 / lit 10 < absv (at' p.qpos 1)
    · simp [h, not_le.mpr h]
    · simp [h, not_lt.mp h]

theorem invertedPendulum_reward_eq (c : Cfg α) (prev next : Phys α) (a : List α)
    (hq : 2 ≤ next.qpos.length) :
    (ipRewardL c prev next a).total = (ipRewardG c prev next a).total := by
  have h := invertedPendulum_terminated_eq c next hq
  simp only [ipRewardL, ipRewardG, ← h, ipTermL, Bool.not_not]

/-! ### InvertedDoublePendulum -/

theorem invertedDoublePendulum_obs_eq (f : Fns α) (c : Cfg α) (p : Phys α) :
    idpObsL f c p = idpObsG f c p := rfl

theorem invertedDoublePendulum_terminated_eq (c : Cfg α) (p : Phys α) :
    idpTermL c p = idpTermG c p := rfl

theorem idp_alive_eq (y h : α) :
    ofBool (decide (1 < y)) * h = h * ofBool (!decide (y ≤ 1)) := by
  by_cases hy : y ≤ 1
  · have : ¬ 1 < y := not_lt.mpr hy
    simp [ofBool, hy, this]
  · have : 1 < y := not_le.mp hy
    simp [ofBool, hy, this]

theorem invertedDoublePendulum_reward_eq (c : Cfg α) (prev next : Phys α) (a : List α) :
    (idpRewardL c prev next a).total = (idpRewardG c prev next a).total := by
  simp only [idpRewardL, idpRewardG, idpTermG, idp_alive_eq]

/-- components: same three quantities; lerax reports the penalties as positive numbers under
    the keys `dist_penalty / vel_penalty / alive_bonus`, Gymnasium as negative numbers under
    `distance_penalty / velocity_penalty / reward_survive`. -/
theorem invertedDoublePendulum_components_rel (c : Cfg α) (prev next : Phys α) (a : List α) :
    ∃ d v al : α,
      (idpRewardL c prev next a).comps = [("dist_penalty", d), ("vel_penalty", v), ("alive_bonus", al)] ∧
      (idpRewardG c prev next a).comps =
        [("reward_survive", al), ("distance_penalty", -d), ("velocity_penalty", -v)] := by
  refine ⟨_, _, _, rfl, ?_⟩
  simp only [idpRewardG, idpTermG, idp_alive_eq]

/-! ### Reacher — lerax reads `xipos`, Gymnasium `xpos`; equal when the fingertip−target
    difference is the same in both tables (true for `reacher.xml`, whose fingertip and target
    bodies have their inertial frame at the body origin; checked numerically by the harness) -/

theorem reacher_obs_eq (f : Fns α) (c : Cfg α) (p : Phys α)
    (hcom : vsub (row p.xipos c.fingertip) (row p.xipos c.target) =
            vsub (row p.xpos c.fingertip) (row p.xpos c.target)) :
    reacherObsL f c p = reacherObsG f c p := by
  simp only [reacherObsL, reacherObsG, hcom]

theorem reacher_reward_eq (f : Fns α) (c : Cfg α) (prev next : Phys α) (a : List α)
    (hcom : vsub (row next.xipos c.fingertip) (row next.xipos c.target) =
            vsub (row next.xpos c.fingertip) (row next.xpos c.target)) :
    (reacherRewardL f c prev next a).total = (reacherRewardG f c prev next a).total ∧
    (reacherRewardL f c prev next a).comps = (reacherRewardG f c prev next a).comps := by
  simp only [reacherRewardL, reacherRewardG, hcom, and_self]

theorem reacher_terminated_eq (c : Cfg α) (p : Phys α) : termL c p .reacher = termG c p .reacher :=
  rfl

/-! ### Pusher -/

theorem pusher_obs_eq (c : Cfg α) (p : Phys α) : pusherObsL c p = pusherObsG c p := rfl

theorem pusher_reward_eq (f : Fns α) (c : Cfg α) (prev next : Phys α) (a : List α) :
    (pusherRewardL f c prev next a).total = (pusherRewardG f c prev next a).total ∧
    (pusherRewardL f c prev next a).comps = (pusherRewardG f c prev next a).comps :=
  ⟨rfl, rfl⟩

theorem pusher_terminated_eq (c : Cfg α) (p : Phys α) : termL c p .pusher = termG c p .pusher := rfl

/-! ### HalfCheetah, Swimmer -/

theorem halfCheetah_obs_eq (c : Cfg α) (p : Phys α) : cheetahObsL c p = cheetahObsG c p := rfl
theorem swimmer_obs_eq (c : Cfg α) (p : Phys α) : swimmerObsL c p = swimmerObsG c p := rfl

theorem halfCheetah_reward_eq (c : Cfg α) (prev next : Phys α) (a : List α) :
    (runRewardL c prev next a).total = (runRewardG c prev next a).total ∧
    (runRewardL c prev next a).comps = (runRewardG c prev next a).comps := ⟨rfl, rfl⟩

theorem swimmer_reward_eq (f : Fns α) (c : Cfg α) (prev next : Phys α) (a : List α) :
    (rewardL f c prev next a .swimmer).total = (rewardG f c prev next a .swimmer).total ∧
    (rewardL f c prev next a .swimmer).comps = (rewardG f c prev next a .swimmer).comps :=
  ⟨rfl, rfl⟩

theorem halfCheetah_terminated_eq (c : Cfg α) (p : Phys α) :
    termL c p .halfCheetah = termG c p .halfCheetah := rfl
theorem swimmer_terminated_eq (c : Cfg α) (p : Phys α) :
    termL c p .swimmer = termG c p .swimmer := rfl

/-! ### Hopper, Walker2d -/

theorem healthTerm_eq (h : Bool) (c : Cfg α) : healthTermL h c = healthTermG h c := by
  cases h <;> cases hc : c.termUnhealthy <;> simp [healthTermL, healthTermG, hc]

theorem hopper_healthy_eq (c : Cfg α) (p : Phys α) (hq : 2 ≤ p.qpos.length) :
    hopperHealthyL c p = hopperHealthyG c p := by
  have : (p.qpos ++ p.qvel).drop 2 = p.qpos.drop 2 ++ p.qvel :=
    List.drop_append_of_le_length hq
  simp only [hopperHealthyL, hopperHealthyG, this]
  simp [Bool.and_assoc]

theorem hopper_obs_eq (c : Cfg α) (p : Phys α) : hopperObsL c p = hopperObsG c p := rfl
theorem walker2d_obs_eq (c : Cfg α) (p : Phys α) : walkerObsL c p = walkerObsG c p := rfl

theorem hopper_reward_eq (c : Cfg α) (prev next : Phys α) (a : List α)
    (hq : 2 ≤ next.qpos.length) :
    (legRewardL hopperHealthyL c prev next a).total = (legRewardG hopperHealthyG c prev next a).total ∧
    (legRewardL hopperHealthyL c prev next a).comps = (legRewardG hopperHealthyG c prev next a).comps := by
  simp only [legRewardL, legRewardG, hopper_healthy_eq c next hq, and_self]

theorem hopper_terminated_eq (c : Cfg α) (p : Phys α) (hq : 2 ≤ p.qpos.length) :
    termL c p .hopper = termG c p .hopper := by
  simp only [termL, termG, hopper_healthy_eq c p hq, healthTerm_eq]

theorem walker2d_reward_eq (c : Cfg α) (prev next : Phys α) (a : List α) :
    (legRewardL walkerHealthyL c prev next a).total = (legRewardG walkerHealthyG c prev next a).total ∧
    (legRewardL walkerHealthyL c prev next a).comps = (legRewardG walkerHealthyG c prev next a).comps :=
  ⟨rfl, rfl⟩

theorem walker2d_terminated_eq (c : Cfg α) (p : Phys α) :
    termL c p .walker2d = termG c p .walker2d := by
  simp only [termL, termG, healthTerm_eq]
  rfl

/-! ### Ant -/

theorem ant_obs_eq (c : Cfg α) (p : Phys α) : antObsL c p = antObsG c p := by
  simp only [antObsL, antObsG]
  cases c.inclCfrc <;> simp

theorem ant_healthy_eq (c : Cfg α) (p : Phys α) (hq : 3 ≤ p.qpos.length) :
    antHealthyL c p = antHealthyG c p := by
  simp only [antHealthyL, antHealthyG, at'_append_left p.qpos p.qvel 2 (by omega)]

theorem ant_reward_eq (c : Cfg α) (prev next : Phys α) (a : List α) (hq : 3 ≤ next.qpos.length) :
    (antRewardL c prev next a).total = (antRewardG c prev next a).total ∧
    (antRewardL c prev next a).comps = (antRewardG c prev next a).comps := by
  simp only [antRewardL, antRewardG, ant_healthy_eq c next hq]
  constructor
  · ring
  · simp [mul_comm]

theorem ant_terminated_eq (c : Cfg α) (p : Phys α) (hq : 3 ≤ p.qpos.length) :
    termL c p .ant = termG c p .ant := by
  simp only [termL, termG, ant_healthy_eq c p hq, healthTerm_eq]

/-! ### Humanoid, HumanoidStandup -/

theorem humanoid_obs_eq (c : Cfg α) (p : Phys α) : humanoidObsL c p = humanoidObsG c p := rfl

/-- lerax charges the control cost on `action`, Gymnasium on `data.ctrl`; `transition` and
    `do_simulation` both write the action into `ctrl`. -/
theorem humanoid_reward_eq (c : Cfg α) (prev next : Phys α) (a : List α) (hctrl : next.ctrl = a) :
    (humanoidRewardL c prev next a).total = (humanoidRewardG c prev next a).total ∧
    (humanoidRewardL c prev next a).comps = (humanoidRewardG c prev next a).comps := by
  simp only [humanoidRewardL, humanoidRewardWith, humanoidRewardG, humanoidContactCostL,
    humanoidContactCostG, hctrl]
  constructor
  · ring
  · trivial

theorem humanoid_terminated_eq (c : Cfg α) (p : Phys α) :
    termL c p .humanoid = termG c p .humanoid := by
  simp only [termL, termG, healthTerm_eq]

theorem humanoidStandup_obs_eq (f : Fns α) (c : Cfg α) (p : Phys α) :
    obsL f c p .humanoidStandup = obsG f c p .humanoidStandup := rfl

/-- Gymnasium v5 stores `uph_cost_weight` but does not apply it; equality for the default
    weight 1 (any other option value). -/
theorem humanoidStandup_reward_eq (c : Cfg α) (prev next : Phys α) (a : List α)
    (hw : c.uphW = 1) :
    (standupRewardL c prev next a).total = (standupRewardG c prev next a).total ∧
    (standupRewardL c prev next a).comps = (standupRewardG c prev next a).comps := by
  simp only [standupRewardL, standupRewardWith, standupRewardG, standupImpactCost, hw, one_mul,
    sub_zero, and_self]

theorem humanoidStandup_terminated_eq (c : Cfg α) (p : Phys α) :
    termL c p .humanoidStandup = termG c p .humanoidStandup := rfl

/-! ### all environments at once -/

/-- side conditions under which the two assemblies coincide (model dimensions; the two body
    position tables agreeing where Reacher reads them; `ctrl = action`; default `uph` weight) -/
def AssemblyHyp (c : Cfg α) (prev next : Phys α) (a : List α) : Env → Prop
  | .ant => 3 ≤ next.qpos.length
  | .hopper => 2 ≤ next.qpos.length
  | .invertedPendulum => 2 ≤ next.qpos.length
  | .humanoid => next.ctrl = a
  | .humanoidStandup => c.uphW = 1
  | .reacher => vsub (row next.xipos c.fingertip) (row next.xipos c.target) =
                vsub (row next.xpos c.fingertip) (row next.xpos c.target)
  | _ => True

/-- **Same observation, same reward, same termination, for every environment.** -/
theorem mujoco_assembly_eq (f : Fns α) (c : Cfg α) (prev next : Phys α) (a : List α) (e : Env)
    (h : AssemblyHyp c prev next a e) :
    obsL f c next e = obsG f c next e ∧
    (rewardL f c prev next a e).total = (rewardG f c prev next a e).total ∧
    termL c next e = termG c next e := by
  cases e
  · exact ⟨ant_obs_eq c next, (ant_reward_eq c prev next a h).1, ant_terminated_eq c next h⟩
  · exact ⟨rfl, rfl, rfl⟩
  · exact ⟨rfl, (hopper_reward_eq c prev next a h).1, hopper_terminated_eq c next h⟩
  · exact ⟨rfl, (humanoid_reward_eq c prev next a h).1, humanoid_terminated_eq c next⟩
  · exact ⟨rfl, (humanoidStandup_reward_eq c prev next a h).1, rfl⟩
  · exact ⟨rfl, invertedDoublePendulum_reward_eq c prev next a, rfl⟩
  · exact ⟨rfl, invertedPendulum_reward_eq c prev next a h, invertedPendulum_terminated_eq c next h⟩
  · exact ⟨rfl, rfl, rfl⟩
  · exact ⟨reacher_obs_eq f c next h, (reacher_reward_eq f c prev next a h).1, rfl⟩
  · exact ⟨rfl, rfl, rfl⟩
  · exact ⟨rfl, rfl, walker2d_terminated_eq c next⟩

/-! ### observation layout: assembled length = declared `obs_size` -/

/-- shape facts about what the simulator hands over (`nq nv nbody` are the model dimensions) -/
structure Shapes (p : Phys α) (nq nv nbody : Nat) : Prop where
  qpos : p.qpos.length = nq
  qvel : p.qvel.length = nv
  cfrc : p.cfrcExt.length = nbody
  cfrcRow : ∀ r ∈ p.cfrcExt, r.length = 6
  cinert : p.cinert.length = nbody
  cinertRow : ∀ r ∈ p.cinert, r.length = 10
  cvel : p.cvel.length = nbody
  cvelRow : ∀ r ∈ p.cvel, r.length = 6
  qfrc : p.qfrcActuator.length = nv
  xposRow : ∀ r ∈ p.xpos, r.length = 3
  xiposRow : ∀ r ∈ p.xipos, r.length = 3
  nxpos : p.xpos.length = nbody
  nxipos : p.xipos.length = nbody

/-- per-environment requirements on the model dimensions (all satisfied by the shipped XML
    models; e.g. the fixed `obs_size = 9` of InvertedDoublePendulum presumes `nq = nv = 3`) -/
def LayoutOK (c : Cfg α) (p : Phys α) (nq nv nbody : Nat) : Env → Prop
  | .ant | .humanoid | .humanoidStandup | .swimmer => 2 ≤ nq
  | .halfCheetah | .hopper | .walker2d => 1 ≤ nq
  | .invertedPendulum => True
  | .invertedDoublePendulum => nq = 3 ∧ nv = 3 ∧ 1 ≤ p.qfrcConstraint.length
  | .reacher => nq = 4 ∧ 2 ≤ nv ∧ c.fingertip < nbody ∧ c.target < nbody
  | .pusher => 7 ≤ nq ∧ 7 ≤ nv ∧ c.tips < nbody ∧ c.object < nbody ∧ c.goal < nbody

theorem drop_flat_length (rows : List (List α)) (k n : Nat) (h : ∀ r ∈ rows, r.length = k)
    (hn : rows.length = n) : (flat rows.tail).length = (n - 1) * k := by
  rw [← List.drop_one, flat_length (rows.drop 1) k (fun r hr => h r (List.mem_of_mem_drop hr))]
  simp [hn]

theorem antClipped_shape (c : Cfg α) (p : Phys α) (nbody : Nat) (h1 : p.cfrcExt.length = nbody)
    (h2 : ∀ r ∈ p.cfrcExt, r.length = 6) :
    (antClippedForces c p).length = nbody ∧ ∀ r ∈ antClippedForces c p, r.length = 6 := by
  constructor
  · simp [antClippedForces, h1]
  · intro r hr
    simp only [antClippedForces, List.mem_map] at hr
    obtain ⟨r0, hr0, rfl⟩ := hr
    simp [h2 r0 hr0]

/-- **`obs_layout_length`** — for each of the 11 environments, ALL combinations of the
    observation flags and all model dimensions, the assembled observation has exactly the
    declared `obs_size`. -/
theorem obs_layout_length (f : Fns α) (c : Cfg α) (p : Phys α) (nq nv nbody : Nat) (e : Env)
    (hs : Shapes p nq nv nbody) (hl : LayoutOK c p nq nv nbody e) :
    (obsL f c p e).length = obsSize c nq nv nbody e := by
  obtain ⟨hq, hv, hcf, hcfr, hci, hcir, hcv, hcvr, hqf, hxr, hxir, hnx, hnxi⟩ := hs
  cases e
  · -- ant
    simp only [LayoutOK] at hl
    obtain ⟨ha1, ha2⟩ := antClipped_shape c p nbody hcf hcfr
    have hfl := drop_flat_length (antClippedForces c p) 6 nbody ha2 ha1
    simp only [obsL, antObsL, obsSize, antObsSize]
    cases c.exclPos <;> cases c.inclCfrc <;> simp [hq, hv, hfl] <;> omega
  · simp only [LayoutOK] at hl
    simp only [obsL, cheetahObsL, plainObs, obsSize, plainObsSize]
    cases c.exclPos <;> simp [hq, hv] <;> omega
  · simp only [LayoutOK] at hl
    simp only [obsL, hopperObsL, clippedVelObs, obsSize, plainObsSize]
    cases c.exclPos <;> simp [hq, hv] <;> omega
  · simp only [LayoutOK] at hl
    have h1 := drop_flat_length p.cinert 10 nbody hcir hci
    have h2 := drop_flat_length p.cvel 6 nbody hcvr hcv
    have h3 := drop_flat_length p.cfrcExt 6 nbody hcfr hcf
    simp only [obsL, humanoidObsL, obsSize, humanoidObsSize]
    cases c.exclPos <;> cases c.inclCinert <;> cases c.inclCvel <;> cases c.inclQfrc <;>
      cases c.inclCfrc <;> simp [hq, hv, h1, h2, h3, hqf] <;> omega
  · simp only [LayoutOK] at hl
    have h1 := drop_flat_length p.cinert 10 nbody hcir hci
    have h2 := drop_flat_length p.cvel 6 nbody hcvr hcv
    have h3 := drop_flat_length p.cfrcExt 6 nbody hcfr hcf
    simp only [obsL, humanoidObsL, obsSize, humanoidObsSize]
    cases c.exclPos <;> cases c.inclCinert <;> cases c.inclCvel <;> cases c.inclQfrc <;>
      cases c.inclCfrc <;> simp [hq, hv, h1, h2, h3, hqf] <;> omega
  · obtain ⟨h1, h2, h3⟩ := hl
    simp only [obsL, idpObsL, obsSize, idpObsSizeL]
    simp [hq, hv, h1, h2]
    omega
  · simp [obsL, ipObsL, obsSize, ipObsSizeL, hq, hv]
  · obtain ⟨h1, h2, h3, h4, h5⟩ := hl
    have r1 := row_length p.xpos 3 c.tips hxr (by omega)
    have r2 := row_length p.xpos 3 c.object hxr (by omega)
    have r3 := row_length p.xpos 3 c.goal hxr (by omega)
    simp only [obsL, pusherObsL, pusherObsOf, obsSize, pusherObsSizeL]
    simp [hq, hv, r1, r2, r3]
    omega
  · obtain ⟨h1, h2, h3, h4⟩ := hl
    have r1 := row_length p.xipos 3 c.fingertip hxir (by omega)
    have r2 := row_length p.xipos 3 c.target hxir (by omega)
    simp only [obsL, reacherObsL, obsSize, reacherObsSizeL]
    simp [hq, hv, h1, vsub, r1, r2]
    omega
  · simp only [LayoutOK] at hl
    simp only [obsL, swimmerObsL, plainObs, obsSize, plainObsSize]
    cases c.exclPos <;> simp [hq, hv] <;> omega
  · simp only [LayoutOK] at hl
    simp only [obsL, walkerObsL, clippedVelObs, obsSize, plainObsSize]
    cases c.exclPos <;> simp [hq, hv] <;> omega

/-! ### cached kinematics -/

section kin
variable {Q V K A : Type}

theorem simTransition_coherent (FK : Q → V → K) (integ : Q → V → K → A → Q × V) (n : Nat)
    (s : Sim Q V K) (a : A) (h : s.kin = FK s.src.1 s.src.2) :
    (simTransition FK integ n s a).kin =
      FK (simTransition FK integ n s a).src.1 (simTransition FK integ n s a).src.2 := by
  induction n generalizing s with
  | zero => exact h
  | succ n ih => exact ih (subStep FK integ s a) rfl

/-- **`kin_coherent`** — in every state produced by `initial` or reachable from it by any number
    of transitions (any frame skip, any actions, any integrator), the cached kinematics is the
    forward pass of the state at which it was computed (`src`): never a placeholder.  At a reset
    state `src` is the state itself (`kin_fresh_at_reset`); after a transition it is the state
    before the last sub-step's integration — exactly as in MuJoCo's `mj_step`, which Gymnasium
    uses (`lerax_gym_sim_eq`). -/
theorem kin_coherent (FK : Q → V → K) (integ : Q → V → K → A → Q × V) (frameSkip : Nat)
    (s : Sim Q V K) (h : SimReach FK integ frameSkip s) : s.kin = FK s.src.1 s.src.2 := by
  induction h with
  | init q v => rfl
  | step a _ ih => exact simTransition_coherent FK integ frameSkip _ a ih

/-- at reset the observation / first reward read the kinematics *of the reset state* -/
theorem kin_fresh_at_reset (FK : Q → V → K) (q : Q) (v : V) :
    (simInitial FK q v).kin = FK q v ∧ (simInitial FK q v).src = (q, v) ∧
    (simInitial FK q v).qpos = q ∧ (simInitial FK q v).qvel = v := ⟨rfl, rfl, rfl, rfl⟩

/-- lerax (`initial` + `transition`) and Gymnasium (`set_state` + `mj_step × frame_skip`) are the
    same machine: identical reset draws and actions give identical `(qpos, qvel, kin)`. -/
theorem lerax_gym_sim_eq (FK : Q → V → K) (integ : Q → V → K → A → Q × V) (n : Nat) (q : Q) (v : V)
    (as : List A) :
    as.foldl (simTransition FK integ n) (simInitial FK q v) =
      as.foldl (simTransition FK integ n) (gymReset FK q v) := rfl

/-- the pre-repair `initial()` is incoherent: with `FK q v = q + v + 1` and the zero placeholder
    the cache at reset is not the forward pass of the reset state. -/
theorem legacy_initial_incoherent :
    ∃ (FK : Nat → Nat → Nat) (k0 q v : Nat),
      (LegacySimInitial k0 q v).kin ≠ FK (LegacySimInitial k0 q v).src.1 (LegacySimInitial k0 q v).src.2 :=
  ⟨fun q v => q + v + 1, 0, 0, 0, by decide⟩

/-- **`forces_fresh_after_step`** — after every transition (any frame skip, action, integrator, from any
    state) the cached contact forces are those of the state reached, computed by the post-constraint
    pass; at a reset they are the zero placeholder — on the lerax side exactly as on Gymnasium's
    (`do_simulation` = `mj_step × frame_skip ; mj_rnePostConstraint`). -/
theorem forces_fresh_after_step {F : Type} (FK : Q → V → K) (integ : Q → V → K → A → Q × V)
    (RNE : Q → V → F) (n : Nat) (s : SimF Q V K F) (a : A) :
    (simFTransition FK integ RNE n s a).frc =
      some (RNE (simFTransition FK integ RNE n s a).sim.qpos (simFTransition FK integ RNE n s a).sim.qvel) ∧
    (simFTransition FK integ RNE n s a).sim = simTransition FK integ n s.sim a ∧
    (simFInitial FK s.sim.qpos s.sim.qvel : SimF Q V K F).frc = none := ⟨rfl, rfl, rfl⟩

theorem forces_fresh_foldl {F : Type} (FK : Q → V → K) (integ : Q → V → K → A → Q × V)
    (RNE : Q → V → F) (n : Nat) (as : List A) (hne : as ≠ []) (s0 : SimF Q V K F) :
    (as.foldl (simFTransition FK integ RNE n) s0).frc =
      some (RNE (as.foldl (simFTransition FK integ RNE n) s0).sim.qpos
                (as.foldl (simFTransition FK integ RNE n) s0).sim.qvel) := by
  induction as generalizing s0 with
  | nil => exact absurd rfl hne
  | cons a rest ih =>
      cases rest with
      | nil => rfl
      | cons b rest' => exact ih (by simp) (simFTransition FK integ RNE n s0 a)

/-- along every rollout from a reset the forces read by observation / reward after step `t ≥ 1` are the
    forces of that step's state -/
theorem forces_fresh_along_rollout {F : Type} (FK : Q → V → K) (integ : Q → V → K → A → Q × V)
    (RNE : Q → V → F) (n : Nat) (q : Q) (v : V) (as : List A) (hne : as ≠ []) :
    let s := as.foldl (simFTransition FK integ RNE n) (simFInitial FK q v)
    s.frc = some (RNE s.sim.qpos s.sim.qvel) :=
  forces_fresh_foldl FK integ RNE n as hne _

theorem legacy_forces_foldl {F : Type} (FK : Q → V → K) (integ : Q → V → K → A → Q × V)
    (n : Nat) (as : List A) (s0 : SimF Q V K F) :
    (as.foldl (LegacySimFTransition FK integ n) s0).frc = s0.frc := by
  induction as generalizing s0 with
  | nil => rfl
  | cons a rest ih => exact ih (LegacySimFTransition FK integ n s0 a)

/-- the pre-repair transition never refreshes the forces: from a reset they stay the zero placeholder
    for ever, whatever the contact forces of the states visited are -/
theorem legacy_forces_never_computed {F : Type} (FK : Q → V → K) (integ : Q → V → K → A → Q × V)
    (n : Nat) (q : Q) (v : V) (as : List A) :
    (as.foldl (LegacySimFTransition (F := F) FK integ n) (simFInitial FK q v)).frc = none :=
  legacy_forces_foldl FK integ n as _

end kin

/-! ### pre-repair assembly differs from Gymnasium (witnesses over ℚ) -/

def witnessCfg : Cfg ℚ :=
  { dt := 15 / 1000, timestep := 3 / 1000, fwdW := 1, ctrlW := 1 / 10, contactW := 1 / 2000000,
    healthyR := 5, distW := 1, nearW := 1 / 2, uphW := 1, impactW := 1 / 2000000,
    termUnhealthy := true, exclPos := true, inclCinert := true, inclCvel := true,
    inclQfrc := true, inclCfrc := true, zLo := some 1, zHi := some 2, angLo := none,
    angHi := none, stLo := none, stHi := none, cLo := none, cHi := some 10, bodyMass := [1],
    mainBody := 0, fingertip := 0, target := 0, tips := 0, object := 1, goal := 2 }

def witnessPhys (z : ℚ) (force : ℚ) : Phys ℚ :=
  { qpos := [0, 0, z], qvel := [0, 0, 0], xpos := [[0, 0, 0], [1, 0, 0], [2, 0, 0]],
    xipos := [[1, 0, 0], [1, 0, 0], [2, 0, 0]], cfrcExt := [[force]], cinert := [], cvel := [],
    qfrcActuator := [], qfrcConstraint := [], siteXpos := [], ctrl := [], finite := true }

/-- HumanoidStandup: height 0.3 ⇒ Gymnasium pays 0.3 / 0.003 = 100 (+1), the pre-repair lerax
    0.3 / 0.015 = 20 (+1). -/
theorem legacy_standup_reward_differs :
    (LegacyStandupRewardL witnessCfg (witnessPhys 0 0) (witnessPhys (3 / 10) 0) []).total ≠
      (standupRewardG witnessCfg (witnessPhys 0 0) (witnessPhys (3 / 10) 0) []).total := by
  norm_num [LegacyStandupRewardL, standupRewardWith, standupRewardG, standupImpactCost, witnessCfg,
    witnessPhys, at', sumSq, Mujoco.sum, flat, clipO]

example :
    (standupRewardL witnessCfg (witnessPhys 0 0) (witnessPhys (3 / 10) 0) []).total = 101 := by
  norm_num [standupRewardL, standupRewardWith, standupImpactCost, witnessCfg,
    witnessPhys, at', sumSq, Mujoco.sum, flat, clipO]

/-- Humanoid: contact force 2000 ⇒ Σf² = 4·10⁶; Gymnasium's cost is min(5·10⁻⁷·Σf², 10) = 2,
    the pre-repair lerax cost 5·10⁻⁷·min(Σf², 10) = 5·10⁻⁶. -/
theorem legacy_humanoid_contact_cost_differs :
    LegacyHumanoidContactCostL witnessCfg (witnessPhys 0 2000) ≠
      humanoidContactCostG witnessCfg (witnessPhys 0 2000) := by
  norm_num [LegacyHumanoidContactCostL, humanoidContactCostG, witnessCfg, witnessPhys, sumSq,
    Mujoco.sum, flat, clipO]

example : humanoidContactCostL witnessCfg (witnessPhys 0 2000) = 2 := by
  norm_num [humanoidContactCostL, witnessCfg, witnessPhys, sumSq, Mujoco.sum, flat, clipO]

/-- Pusher: where the inertial frame of `tips_arm` is offset from the body origin the pre-repair
    observation differs from Gymnasium's. -/
theorem legacy_pusher_obs_differs :
    LegacyPusherObsL witnessCfg (witnessPhys 0 0) ≠ pusherObsG witnessCfg (witnessPhys 0 0) := by
  simp [LegacyPusherObsL, pusherObsG, pusherObsOf, witnessCfg, witnessPhys, row]

/-! ### non-vacuity -/

/-- the `Shapes` / `LayoutOK` hypotheses are satisfiable with a non-trivial instance:
    HalfCheetah-like dimensions `nq = 3, nv = 2`, one body. -/
example :
    (obsL (α := ℚ) ⟨id, id, id⟩ witnessCfg
      { witnessPhys 1 0 with qvel := [7, 8], cfrcExt := [[0, 0, 0, 0, 0, 0]],
                             cinert := [[0, 0, 0, 0, 0, 0, 0, 0, 0, 0]],
                             cvel := [[0, 0, 0, 0, 0, 0]], qfrcActuator := [0, 0],
                             xpos := [[0, 0, 0]], xipos := [[0, 0, 0]] } .halfCheetah)
      = [0, 1, 7, 8] := by
  simp [obsL, cheetahObsL, plainObs, witnessCfg, witnessPhys]

example : SimReach (fun (q v : Nat) => q + v) (fun q v _ (a : Nat) => (q + v, v + a)) 2
    (simTransition (fun (q v : Nat) => q + v) (fun q v _ (a : Nat) => (q + v, v + a)) 2
      (simInitial (fun (q v : Nat) => q + v) 1 2) 5) :=
  .step 5 (.init 1 2)

end Lerax.C17
