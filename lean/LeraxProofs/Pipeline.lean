/-
  Cross-property compositions: theorems that chain the models of several properties, so that the
  end-to-end statements users rely on are themselves machine-checked.

  * `first_ppo_update_is_on_policy` (C04 ∘ C08): for ANY environment, coherent policy, rollout
    length and keys, the PPO loss evaluated on a freshly collected rollout with the unchanged
    policy has every probability ratio equal to 1, approximate KL 0 and policy loss −mean(Â).
  * `collected_advantages_cut_at_done` (C04 ∘ C03): the advantages computed for a collected rollout
    up to a done row do not depend on anything recorded after it.
-/
import LeraxProofs.C03
import LeraxProofs.C04
import LeraxProofs.C08

namespace Lerax.Pipeline
open Lerax.Env Lerax.OnPolicy Lerax.Loss

section ppo
set_option linter.unusedSectionVars false
variable {S A O K PS M α : Type} [Keys K] [Field α] [LinearOrder α] [IsStrictOrderedRing α]

/-- every row of a collected rollout re-evaluates to its own stored value and log-probability -/
theorem rollout_rows_reevaluate (E : Env S A O α K) (mask : S → K → Option M) (clip : A → A)
    (P : Policy PS O A M α K) (hP : Lerax.C04.Coherent P) (γ : α) (st : StepState S PS) (keys : List K) :
    ∀ row ∈ (collectRollout E mask clip P γ st keys).2,
      P.evaluate row.policyState row.observation row.action row.mask = (row.value, row.logProb) := by
  induction keys generalizing st with
  | nil => intro row h; simp [collectRollout] at h
  | cons k ks ih =>
      intro row h
      simp only [collectRollout, List.mem_cons] at h
      rcases h with h | h
      · subst h
        exact Lerax.C04.ratio_one E mask clip P γ hP st k
      · exact ih _ row h

/-- the PPO loss inputs built from a collected rollout and the (unchanged) policy's re-evaluation;
    entropies, returns and advantages are arbitrary (they do not enter the statement) -/
def samplesOf (P : Policy PS O A M α K) (rows : List (Row PS O A M α)) (ent ret adv : Nat → α) :
    List (Sample α) :=
  rows.mapIdx (fun i row =>
    let ev := P.evaluate row.policyState row.observation row.action row.mask
    { logpNew := ev.2, vNew := ev.1, entropy := ent i, logpOld := row.logProb, vOld := row.value,
      ret := ret i, adv := adv i })

/-- **C04 ∘ C08.**  On data collected by the current policy every ratio is 1, the approximate KL
    is 0 and the PPO policy loss is `−mean(Â)` — for every environment, coherent policy, rollout
    length, key sequence, clip coefficient ε ≥ 0 and normalisation setting. -/
theorem first_ppo_update_is_on_policy (E : Env S A O α K) (mask : S → K → Option M) (clip : A → A)
    (P : Policy PS O A M α K) (hP : Lerax.C04.Coherent P) (γ : α) (st : StepState S PS) (keys : List K)
    (hne : keys ≠ []) (exp sqrt : α → α) (hexp : exp 0 = 1) (cfg : Cfg α) (hε : 0 ≤ cfg.clipCoef)
    (ent ret adv : Nat → α) :
    let b := samplesOf P (collectRollout E mask clip P γ st keys).2 ent ret adv
    (ppoLoss exp sqrt cfg b).approxKl = 0 ∧
    (ppoLoss exp sqrt cfg b).policyLoss = - mean (advantages sqrt cfg b) := by
  intro b
  have hrows := rollout_rows_reevaluate E mask clip P hP γ st keys
  have hlen : (collectRollout E mask clip P γ st keys).2.length = keys.length :=
    Lerax.C04.rollout_length E mask clip P γ st keys
  have hb : b ≠ [] := by
    intro h
    have : b.length = keys.length := by simp [b, samplesOf, hlen]
    rw [h] at this
    exact hne (List.length_eq_zero_iff.mp this.symm)
  have hsame : ∀ s ∈ b, s.logpNew = s.logpOld := by
    intro s hs
    simp only [b, samplesOf, List.mem_mapIdx] at hs
    obtain ⟨i, hi, rfl⟩ := hs
    have := hrows _ (List.getElem_mem hi)
    simp [this]
  exact (Lerax.C08.on_policy_ratio_one exp sqrt hexp cfg hε b hb hsame).2

end ppo

section gae
open Lerax.Gae
variable {S A O K PS M α : Type} [Keys K] [CommRing α]

/-- GAE of the recorded rewards / values / done flags of a collected rollout -/
def gaeOfRows (γ lam : α) (rows : List (Row PS O A M α)) (last : α) : Out α :=
  gae γ lam (rows.map (·.reward)) (rows.map (·.value)) (rows.map (·.done)) last

/-- **C04 ∘ C03.**  If row `t` of a collected rollout is a done row, the advantages and returns of
    rows `0..t` are the same for any continuation of the rollout (whatever the environment and the
    policy did after the reset, and whatever the bootstrap value is). -/
theorem collected_advantages_cut_at_done (γ lam : α) (rows rows' : List (Row PS O A M α)) (last last' : α)
    (t : Nat) (ht : t < rows.length) (ht' : t < rows'.length)
    (hagree : rows.take (t + 1) = rows'.take (t + 1)) (hdone : (rows.map (·.done)).getD t false = true) :
    (gaeOfRows γ lam rows last).advantages.take (t + 1) = (gaeOfRows γ lam rows' last').advantages.take (t + 1) ∧
    (gaeOfRows γ lam rows last).returns.take (t + 1) = (gaeOfRows γ lam rows' last').returns.take (t + 1) := by
  unfold gaeOfRows
  apply Lerax.C03.gae_cut γ lam _ _ _ _ _ _ last last' (by simp) (by simp) (by simp) (by simp) t
    (by simpa using ht) (by simpa using ht')
  · rw [← List.map_take, ← List.map_take, hagree]
  · rw [← List.map_take, ← List.map_take, hagree]
  · rw [← List.map_take, ← List.map_take, hagree]
  · exact hdone

end gae
end Lerax.Pipeline
