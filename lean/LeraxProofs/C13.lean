/-
  C13 — Wrappers and adapters change only what they declare; TimeLimit is exact.
-/
import LeraxModel.Env
import LeraxModel.Rescale
import Mathlib.Algebra.Order.Field.Basic
import Mathlib.Tactic.FieldSimp
import Mathlib.Tactic.Ring
import Mathlib.Tactic.Linarith

namespace Lerax.C13
open Lerax.Env

set_option linter.unusedSectionVars false

section wrappers
variable {S A O R K : Type} [Keys K]

/-- **Action wrappers feed the inner environment the mapped action for dynamics and reward
    alike** and leave every other component untouched. -/
theorem mapAction_uses_mapped_action {A' : Type} (f : A' → A) (E : Env S A O R K)
    (s s' : S) (a : A') (k : K) :
    (mapAction f E).transition s a k = E.transition s (f a) k ∧
    (mapAction f E).reward s a s' k = E.reward s (f a) s' k ∧
    (mapAction f E).initial = E.initial ∧ (mapAction f E).observation = E.observation ∧
    (mapAction f E).terminal = E.terminal ∧ (mapAction f E).truncate = E.truncate :=
  ⟨rfl, rfl, rfl, rfl, rfl, rfl⟩

/-- **Observation wrappers post-process only the observation.** -/
theorem mapObs_only_obs {O' : Type} (g : O → O') (E : Env S A O R K) (s : S) (k : K) :
    (mapObs g E).observation s k = g (E.observation s k) ∧
    (mapObs g E).transition = E.transition ∧ (mapObs g E).reward = E.reward ∧
    (mapObs g E).initial = E.initial ∧ (mapObs g E).terminal = E.terminal ∧
    (mapObs g E).truncate = E.truncate :=
  ⟨rfl, rfl, rfl, rfl, rfl, rfl⟩

/-- **Reward wrappers post-process only the reward.** -/
theorem mapReward_only_reward (h : R → R) (E : Env S A O R K) (s s' : S) (a : A) (k : K) :
    (mapReward h E).reward s a s' k = h (E.reward s a s' k) ∧
    (mapReward h E).transition = E.transition ∧ (mapReward h E).observation = E.observation ∧
    (mapReward h E).initial = E.initial ∧ (mapReward h E).terminal = E.terminal ∧
    (mapReward h E).truncate = E.truncate :=
  ⟨rfl, rfl, rfl, rfl, rfl, rfl⟩

theorem identity_is_inner (E : Env S A O R K) : identity E = E := rfl

/-- `TimeLimit` changes only the truncation signal (and carries a counter). -/
theorem timeLimit_passthrough (n : Nat) (E : Env S A O R K) (s s' : S × Nat) (a : A) (k : K) :
    ((timeLimit n E).transition s a k).1 = E.transition s.1 a k ∧
    (timeLimit n E).reward s a s' k = E.reward s.1 a s'.1 k ∧
    (timeLimit n E).observation s k = E.observation s.1 k ∧
    (timeLimit n E).terminal s k = E.terminal s.1 k ∧
    ((timeLimit n E).initial k).1 = E.initial k :=
  ⟨rfl, rfl, rfl, rfl, rfl⟩

end wrappers

/-! ### arbitrary stacks: the wrapped environment is the base environment seen through the
    composed action / observation / reward maps -/

section wstacks
variable {S0 A0 O0 R K : Type} [Keys K]

/-- composition of all action maps of a stack (outermost applied first) -/
def actMap {S A O : Type} : Stack S0 A0 O0 R S A O → A → A0
  | .base, a => a
  | .identity st, a => actMap st a
  | .timeLimit _ st, a => actMap st a
  | .mapAction f st, a => actMap st (f a)
  | .mapObs _ st, a => actMap st a
  | .mapReward _ st, a => actMap st a

def obsMap {S A O : Type} : Stack S0 A0 O0 R S A O → O0 → O
  | .base, o => o
  | .identity st, o => obsMap st o
  | .timeLimit _ st, o => obsMap st o
  | .mapAction _ st, o => obsMap st o
  | .mapObs g st, o => g (obsMap st o)
  | .mapReward _ st, o => obsMap st o

def rewMap {S A O : Type} : Stack S0 A0 O0 R S A O → R → R
  | .base, r => r
  | .identity st, r => rewMap st r
  | .timeLimit _ st, r => rewMap st r
  | .mapAction _ st, r => rewMap st r
  | .mapObs _ st, r => rewMap st r
  | .mapReward h st, r => h (rewMap st r)

/-- some `TimeLimit` in the stack has reached its limit -/
def limitHit {S A O : Type} : Stack S0 A0 O0 R S A O → S → Bool
  | .base, _ => false
  | .identity st, s => limitHit st s
  | .timeLimit n st, s => decide (n ≤ s.2) || limitHit st s.1
  | .mapAction _ st, s => limitHit st s
  | .mapObs _ st, s => limitHit st s
  | .mapReward _ st, s => limitHit st s

/-- **Everything else passes through unchanged, for arbitrary wrapper stacks**: the unwrapped
    successor is the base successor under the composed action map; the reward is the base reward
    of the mapped action through the composed reward map; the observation is the base
    observation through the composed observation map; termination is the base's; truncation is
    the base's or a time limit's. -/
theorem stack_semantics {S A O : Type} (st : Stack S0 A0 O0 R S A O) (E : Env S0 A0 O0 R K)
    (s s' : S) (a : A) (k : K) :
    st.unwrapState ((st.denote E).transition s a k) = E.transition (st.unwrapState s) (actMap st a) k ∧
    (st.denote E).reward s a s' k =
      rewMap st (E.reward (st.unwrapState s) (actMap st a) (st.unwrapState s') k) ∧
    (st.denote E).observation s k = obsMap st (E.observation (st.unwrapState s) k) ∧
    (st.denote E).terminal s k = E.terminal (st.unwrapState s) k ∧
    (st.denote E).truncate s = (E.truncate (st.unwrapState s) || limitHit st s) := by
  induction st with
  | base => simp [Stack.denote, Stack.unwrapState, actMap, rewMap, obsMap, limitHit]
  | identity st ih => exact ih s s' a
  | timeLimit n st ih =>
      obtain ⟨h1, h2, h3, h4, h5⟩ := ih s.1 s'.1 a
      refine ⟨h1, h2, h3, h4, ?_⟩
      simp only [Stack.denote, timeLimit, Stack.unwrapState, limitHit, h5]
      cases E.truncate (st.unwrapState s.1) <;> cases limitHit st s.1 <;> simp
  | mapAction f st ih => exact ih s s' (f a)
  | mapObs g st ih =>
      obtain ⟨h1, h2, h3, h4, h5⟩ := ih s s' a
      exact ⟨h1, h2, congrArg g h3, h4, h5⟩
  | mapReward h st ih =>
      obtain ⟨h1, h2, h3, h4, h5⟩ := ih s s' a
      exact ⟨h1, congrArg h h2, h3, h4, h5⟩

end wstacks

/-! ### TimeLimit(N) is exact -/

section timelimit
variable {S A O R K : Type} [Keys K]

/-- states reachable through the Gym-style API of `TimeLimit(N, E)`, indexed by the number of
    steps taken in the current episode -/
inductive ReachN (N : Nat) (E : Env S A O R K) : S × Nat → Nat → Prop where
  | reset (k : K) : ReachN N E ((timeLimit N E).reset k).1 0
  | step {s : S × Nat} {j : Nat} (a : A) (k : K) : ReachN N E s j →
      ReachN N E ((timeLimit N E).step s a k).state
        (if ((timeLimit N E).step s a k).terminal || ((timeLimit N E).step s a k).truncate
         then 0 else j + 1)

/-- **The counter is the number of steps taken in the current episode and never reaches the
    limit at a state handed back by the API** (for every `N ≥ 1`, inner environment, history). -/
theorem counter_is_episode_step (N : Nat) (hN : 1 ≤ N) (E : Env S A O R K) (s : S × Nat) (j : Nat)
    (h : ReachN N E s j) : s.2 = j ∧ j < N := by
  induction h with
  | reset k => exact ⟨rfl, by omega⟩
  | @step s j a k _ ih =>
      obtain ⟨hc, hj⟩ := ih
      simp only [Env.step, timeLimit]
      by_cases hd : (E.terminal (E.transition s.1 a (sub k 0)) (sub k 2) ||
          (E.truncate (E.transition s.1 a (sub k 0)) || decide (N ≤ s.2 + 1))) = true
      · simp [hd]; omega
      · simp only [hd, Bool.false_eq_true, if_false]
        simp only [Bool.or_eq_true, decide_eq_true_eq, not_or] at hd
        exact ⟨by omega, by omega⟩

/-- **Truncation is raised at exactly the N-th step of an episode, never earlier or later**:
    at a reachable state that is `j` steps into its episode, the step's truncation flag is the
    inner environment's own truncation or `j + 1 = N`. -/
theorem timelimit_exact (N : Nat) (hN : 1 ≤ N) (E : Env S A O R K) (s : S × Nat) (j : Nat)
    (h : ReachN N E s j) (a : A) (k : K) :
    ((timeLimit N E).step s a k).truncate =
      (E.truncate (E.transition s.1 a (sub k 0)) || decide (j + 1 = N)) := by
  obtain ⟨hc, hj⟩ := counter_is_episode_step N hN E s j h
  simp only [Env.step, timeLimit]
  congr 1
  rw [hc]
  by_cases h' : j + 1 = N
  · simp [h']
  · have : ¬ N ≤ j + 1 := by omega
    simp [h', this]

/-- **The count restarts on reset**: after a step that raised a flag the counter is 0. -/
theorem timelimit_restarts (N : Nat) (E : Env S A O R K) (s : S × Nat) (a : A) (k : K)
    (h : ((timeLimit N E).step s a k).terminal = true ∨ ((timeLimit N E).step s a k).truncate = true) :
    ((timeLimit N E).step s a k).state.2 = 0 := by
  simp only [Env.step, timeLimit] at h ⊢
  have hc : (E.terminal (E.transition s.1 a (sub k 0)) (sub k 2) ||
      (E.truncate (E.transition s.1 a (sub k 0)) || decide (N ≤ s.2 + 1))) = true := by
    rcases h with h | h <;> simp [h]
  simp [hc]

/-- functional API: after `j` transitions from an initial state the counter is `j`. -/
theorem timelimit_counter_functional (N : Nat) (E : Env S A O R K) (k0 : K) (hist : List (A × K)) :
    (hist.foldl (fun s ak => (timeLimit N E).transition s ak.1 ak.2) ((timeLimit N E).initial k0)).2
      = hist.length := by
  suffices ∀ (s : S × Nat), (hist.foldl (fun s ak => (timeLimit N E).transition s ak.1 ak.2) s).2
      = s.2 + hist.length by simpa [timeLimit] using this ((timeLimit N E).initial k0)
  induction hist with
  | nil => intro s; simp
  | cons x xs ih => intro s; simp only [List.foldl_cons, List.length_cons]; rw [ih]; simp [timeLimit]; omega

end timelimit

/-! ### adapters -/

section adapters
variable {S A O R K : Type} [Keys K]

/-- **The Gymnasium adapter reproduces the trajectory of the environment it adapts**: the outputs
    of any sequence of adapter steps are the outputs of the adapted environment's own `step`
    chained from the adapter's state under the adapter's key schedule (`key, step_key = split`). -/
theorem adapter_trajectory (E : Env S A O R K) (ad : GymAdapter S K) (actions : List A) :
    GymAdapter.run E ad actions = envRun E ad.state ad.key actions := by
  induction actions generalizing ad with
  | nil => rfl
  | cons a as ih => simp [GymAdapter.run, envRun, GymAdapter.step, ih]

/-- `reset` hands back the adapted environment's own reset (state kept, observation returned) -/
theorem adapter_reset (E : Env S A O R K) (ad : GymAdapter S K) (seed : Option K) :
    (ad.reset E seed).1.state = (E.reset (sub (seed.getD ad.key) 1)).1 ∧
    (ad.reset E seed).2 = (E.reset (sub (seed.getD ad.key) 1)).2 := ⟨rfl, rfl⟩

/-- **The Gymnax adapter**: `done` is raised exactly when the transition taken is terminal or truncated (a
    time limit anywhere in the stack counts), and then the returned state is a freshly drawn initial state —
    whatever the environment / wrapper stack. -/
theorem gymnax_done_iff (E : Env S A O R K) (s : S) (a : A) (k : K) :
    let out := gymnaxStepEnv E s a k
    let next := E.transition s a (sub k 0)
    (out.2.2.2 = (E.terminal next (sub k 2) || E.truncate next)) ∧
    (out.2.2.2 = true → out.2.1 = E.initial (sub k 3)) ∧
    (out.2.2.2 = false → out.2.1 = next) ∧
    out.2.2.1 = E.reward s a next (sub k 1) := by
  simp only [gymnaxStepEnv, Env.step]
  refine ⟨trivial, ?_, ?_, trivial⟩ <;> intro h <;> simp_all

/-- in particular through a `TimeLimit n` over any inner environment: the `n`-th step of an episode raises `done` -/
theorem gymnax_done_at_time_limit (E : Env S A O R K) (n : Nat) (s : S) (c : Nat) (a : A) (k : K)
    (hc : n ≤ c + 1) : (gymnaxStepEnv (timeLimit n E) (s, c) a k).2.2.2 = true := by
  simp [gymnaxStepEnv, Env.step, timeLimit, hc]

end adapters

/-! ### rescale_box and clip -/

section rescale
open Lerax.Rescale
variable {α : Type} [Field α] [LinearOrder α] [IsStrictOrderedRing α]

/-- **For bounded boxes the affine rescale takes the new bounds exactly onto the original
    bounds** (and back), is increasing, and the two maps are mutually inverse. -/
theorem rescale_endpoints (low high mn mx : α) (hb : low < high) (hm : mn < mx) :
    backward low high (some mn) (some mx) mn = low ∧
    backward low high (some mn) (some mx) mx = high ∧
    forward low high (some mn) (some mx) low = mn ∧
    forward low high (some mn) (some mx) high = mx := by
  have h1 : high - low ≠ 0 := by intro h; linarith
  have h2 : mx - mn ≠ 0 := by intro h; linarith
  simp only [backward, forward, intercept, gradient]
  refine ⟨?_, ?_, ?_, ?_⟩ <;> field_simp <;> ring

theorem rescale_inverse (low high mn mx : α) (hb : low < high) (hm : mn < mx) (x : α) :
    backward low high (some mn) (some mx) (forward low high (some mn) (some mx) x) = x ∧
    forward low high (some mn) (some mx) (backward low high (some mn) (some mx) x) = x := by
  have h1 : high - low ≠ 0 := by intro h; linarith
  have h2 : mx - mn ≠ 0 := by intro h; linarith
  simp only [backward, forward, intercept, gradient]
  constructor <;> field_simp <;> ring

theorem rescale_gradient_pos (low high mn mx : α) (hb : low < high) (hm : mn < mx) :
    0 < gradient low high (some mn) (some mx) := by
  simp only [gradient]
  exact div_pos (by linarith) (by linarith)

theorem rescale_monotone (low high mn mx : α) (hb : low < high) (hm : mn < mx) (x y : α)
    (hxy : x ≤ y) :
    forward low high (some mn) (some mx) x ≤ forward low high (some mn) (some mx) y ∧
    backward low high (some mn) (some mx) x ≤ backward low high (some mn) (some mx) y := by
  have hg := rescale_gradient_pos low high mn mx hb hm
  simp only [forward, backward]
  constructor
  · have := mul_le_mul_of_nonneg_left hxy hg.le
    linarith
  · exact div_le_div_of_nonneg_right (by linarith) hg.le

/-- hence members of the new box map to members of the original box -/
theorem rescale_maps_box_into_box (low high mn mx : α) (hb : low < high) (hm : mn < mx) (y : α)
    (h1 : mn ≤ y) (h2 : y ≤ mx) :
    low ≤ backward low high (some mn) (some mx) y ∧ backward low high (some mn) (some mx) y ≤ high := by
  obtain ⟨e1, e2, _, _⟩ := rescale_endpoints low high mn mx hb hm
  constructor
  · have := (rescale_monotone low high mn mx hb hm mn y h1).2
    rwa [e1] at this
  · have := (rescale_monotone low high mn mx hb hm y mx h2).2
    rwa [e2] at this

/-- half-infinite new bounds: a translation that aligns the finite bound -/
theorem rescale_half_infinite (low high m : α) :
    forward low high none (some m) high = m ∧ forward low high (some m) none low = m ∧
    gradient low high none (some m) = 1 ∧ gradient low high (some m) none = 1 ∧
    (∀ x, forward low high (none : Option α) none x = x) := by
  simp [forward, intercept, gradient]

/-- `clip` lands in the bounds and fixes members. -/
theorem clip_spec (lo hi x : α) (h : lo ≤ hi) :
    lo ≤ clip lo hi x ∧ clip lo hi x ≤ hi ∧ (lo ≤ x → x ≤ hi → clip lo hi x = x) := by
  unfold clip
  refine ⟨?_, ?_, ?_⟩
  · split_ifs <;> linarith
  · split_ifs <;> linarith
  · intro h1 h2
    have : ¬ x < lo := not_lt.mpr h1
    have : ¬ hi < x := not_lt.mpr h2
    simp [*]

end rescale

/-! ### non-vacuity -/

example : Lerax.Rescale.backward (-2 : ℚ) 2 (some (-1)) (some 1) 1 = 2 := by
  norm_num [Lerax.Rescale.backward, Lerax.Rescale.intercept, Lerax.Rescale.gradient]

end Lerax.C13

/-! ## The defect repaired by /repo af4a27f (integer new bounds), stated on a model of the pre-repair arithmetic -/
namespace Lerax.C13
/-- pre-repair `rescale_box` when the new bounds are given as integers (`RescaleAction(env, 0, 1)`):
    `jnp.ones_like(min)` / `jnp.zeros_like(min)` are integer arrays, so gradient and intercept were truncated
    toward zero when stored (`.at[...].set` casts to the array's dtype) -/
def legacyIntGradient (lo hi mn mx : Int) : Int := Int.tdiv (mx - mn) (hi - lo)
def legacyIntForward (lo hi mn mx x : Int) : Int :=
  legacyIntGradient lo hi mn mx * x + (mn - lo * legacyIntGradient lo hi mn mx)

/-- whenever the new range is narrower than the original one (the normalisation use case) the legacy
    gradient was 0 and the forward map constant — the original bounds were not mapped onto the new ones,
    and `backward` divided by zero (the nan / inf actions observed) -/
theorem legacy_int_rescale_constant (lo hi mn mx x : Int) (h0 : 0 ≤ mx - mn) (h1 : mx - mn < hi - lo) :
    legacyIntGradient lo hi mn mx = 0 ∧ legacyIntForward lo hi mn mx x = mn := by
  have hg : legacyIntGradient lo hi mn mx = 0 := by
    unfold legacyIntGradient
    exact Int.tdiv_eq_zero_of_lt h0 h1
  refine ⟨hg, ?_⟩
  unfold legacyIntForward
  rw [hg]; simp

/-- concrete witness: Pendulum's torque box [-2, 2] rescaled to [0, 1] sent the upper bound 2 to 0, not 1 -/
theorem legacy_int_rescale_misses_upper_bound : legacyIntForward (-2) 2 0 1 2 ≠ 1 := by decide
end Lerax.C13
