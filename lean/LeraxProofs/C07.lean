/-
  C07 — TD targets bootstrap through truncation, never through termination.
-/
import LeraxModel.Td
import Mathlib.Algebra.Order.Field.Basic
import Mathlib.Tactic.Ring
import Mathlib.Tactic.Linarith
import Mathlib.Analysis.Calculus.Deriv.Pow
import Mathlib.Analysis.Calculus.Deriv.Add
import Mathlib.Analysis.Calculus.Deriv.Mul

namespace Lerax.C07
open Lerax.Td

set_option linter.unusedSectionVars false

section algebra
variable {α : Type} [Field α] [LinearOrder α] [IsStrictOrderedRing α]

/-- `terminated` = done and not a time-limit truncation -/
def terminated (done timeout : Bool) : Bool := done && !timeout

/-- **The mask `~done | timeout` is `1 − terminated`**, for all four flag combinations. -/
theorem not_terminal_eq (done timeout : Bool) :
    (notTerminal done timeout : α) = 1 - ofBool (terminated done timeout) := by
  cases done <;> cases timeout <;> simp [notTerminal, ofBool, terminated]

/-- **The regression target is `r + γ·(1 − terminated)·V'(s')`.** -/
theorem target_formula (γ r v : α) (done timeout : Bool) :
    tdTarget γ r v done timeout = r + γ * (1 - ofBool (terminated done timeout)) * v := by
  rw [tdTarget, not_terminal_eq]; ring

/-- it bootstraps through time-limit truncations … -/
theorem bootstraps_through_truncation (γ r v : α) (done : Bool) :
    tdTarget γ r v done true = r + γ * v := by
  cases done <;> simp [tdTarget, notTerminal, ofBool]

/-- … and through ordinary non-final steps, but never through a true termination. -/
theorem never_through_termination (γ r v : α) :
    tdTarget γ r v true false = r ∧ tdTarget γ r v false false = r + γ * v := by
  simp [tdTarget, notTerminal, ofBool]

/-! ### Double DQN: the target network evaluates the online network's greedy action -/

theorem argmax_go_spec (best : α) (bi i : Nat) (ys : List α) (pre : List α)
    (hpre : pre.length = i) (hbi : bi < i) (hbest : pre[bi]? = some best)
    (hmax : ∀ x ∈ pre, x ≤ best) :
    let r := argmax.go best bi i ys
    r < i + ys.length ∧ (∃ v, (pre ++ ys)[r]? = some v ∧ ∀ x ∈ pre ++ ys, x ≤ v) := by
  induction ys generalizing best bi i pre with
  | nil =>
      simp only [argmax.go, List.length_nil, Nat.add_zero, List.append_nil]
      exact ⟨hbi, best, hbest, hmax⟩
  | cons y ys ih =>
      simp only [argmax.go]
      split
      · rename_i hlt
        have := ih y i (i + 1) (pre ++ [y]) (by simp [hpre]) (by omega)
          (by rw [List.getElem?_append_right (by omega)]; simp [hpre])
          (by
            intro x hx
            rcases List.mem_append.mp hx with hx | hx
            · exact le_of_lt (lt_of_le_of_lt (hmax x hx) hlt)
            · simp at hx; rw [hx])
        simp only [List.append_assoc, List.singleton_append, List.length_cons] at this ⊢
        exact ⟨by omega, this.2⟩
      · rename_i hnlt
        have := ih best bi (i + 1) (pre ++ [y]) (by simp [hpre]) (by omega)
          (by rw [List.getElem?_append_left (by omega)]; exact hbest)
          (by
            intro x hx
            rcases List.mem_append.mp hx with hx | hx
            · exact hmax x hx
            · simp at hx; rw [hx]; exact not_lt.mp hnlt)
        simp only [List.append_assoc, List.singleton_append, List.length_cons] at this ⊢
        exact ⟨by omega, this.2⟩

/-- `argmax` returns an index of a maximal entry -/
theorem argmax_spec (l : List α) (hne : l ≠ []) :
    argmax l < l.length ∧ ∃ v, l[argmax l]? = some v ∧ ∀ x ∈ l, x ≤ v := by
  cases l with
  | nil => exact absurd rfl hne
  | cons x xs =>
      have := argmax_go_spec x 0 1 xs [x] rfl (by omega) (by simp) (by simp)
      simp only [argmax]
      simpa [Nat.add_comm] using this

/-- **Double DQN**: `V'(s')` is the *target* network's value at the *online* network's greedy
    action, and that action maximises the online row. -/
theorem dqn_is_double (s : DqnSample α) (hne : s.onlineNext ≠ []) :
    dqnNextValue s = s.targetNext.getD (argmax s.onlineNext) 0 ∧
    (∃ v, s.onlineNext[argmax s.onlineNext]? = some v ∧ ∀ x ∈ s.onlineNext, x ≤ v) ∧
    ∀ γ, dqnTarget γ s = s.reward + γ * (1 - ofBool (terminated s.done s.timeout)) * dqnNextValue s :=
  ⟨rfl, (argmax_spec s.onlineNext hne).2, fun γ => target_formula γ _ _ _ _⟩

/-- **SAC**: `V'` is the minimum of the two target critics at the sampled next action minus
    `α · log π` of that action. -/
theorem sac_uses_min_minus_entropy (γ a : α) (s : SacSample α) :
    sacNextValue a s = min s.q1TargetNext s.q2TargetNext - a * s.logpNext ∧
    sacTarget γ a s = s.reward + γ * (1 - ofBool (terminated s.done s.timeout)) *
      (min s.q1TargetNext s.q2TargetNext - a * s.logpNext) := by
  have hmin : minA s.q1TargetNext s.q2TargetNext = min s.q1TargetNext s.q2TargetNext := by
    unfold minA
    split
    · rename_i h; exact (min_eq_right (le_of_lt h)).symm
    · rename_i h; exact (min_eq_left (not_lt.mp h)).symm
  refine ⟨by simp [sacNextValue, hmin], ?_⟩
  rw [sacTarget, target_formula, sacNextValue, hmin]

end algebra

/-! ### targets are constants for optimisation -/

section dataflow
variable {Θ : Type}

/-- **No update reaches the target networks**: `sac_train` and `dqn_train` hand the targets back
    unchanged, whatever the optimiser steps do. -/
theorem targets_frozen (criticStep : Θ → Θ → Θ → Θ → Θ) (actorStep : Θ → Θ → Θ → Θ)
    (alphaStep : Θ → Θ → Θ) (u au : Bool) (b : SacBlocks Θ) (step : Θ → Θ → Θ) (online target : Θ) :
    (sacTrain criticStep actorStep alphaStep u au b).targets = b.targets ∧
    (dqnTrain step online target).2 = target := ⟨rfl, rfl⟩

/-- **The actor loss does not move the critics**: the critics returned by `sac_train` are the
    result of the critic step alone, for any actor / temperature step and whether or not the
    actor is updated on this iteration. -/
theorem actor_does_not_move_critics (criticStep : Θ → Θ → Θ → Θ → Θ)
    (actorStep₁ actorStep₂ : Θ → Θ → Θ → Θ) (alphaStep₁ alphaStep₂ : Θ → Θ → Θ)
    (u₁ u₂ au₁ au₂ : Bool) (b : SacBlocks Θ) :
    (sacTrain criticStep actorStep₁ alphaStep₁ u₁ au₁ b).critics =
      (sacTrain criticStep actorStep₂ alphaStep₂ u₂ au₂ b).critics ∧
    (sacTrain criticStep actorStep₁ alphaStep₁ u₁ au₁ b).critics =
      criticStep b.critics b.targets b.actor b.logAlpha := ⟨rfl, rfl⟩

end dataflow

/-! ### semi-gradient: the target is held constant while differentiating -/

section gradient

/-- the contribution of one sample to the squared TD error, as a function of one online table
    entry `x` (`hit` = the sample's (state, action) is that entry; otherwise the sample's own
    entry `c` is a constant); `y` is the sample's target, a constant -/
noncomputable def sampleTerm (hit : Bool) (y c x : ℝ) : ℝ :=
  if hit then (x - y) * (x - y) else (c - y) * (c - y)

/-- model loss `mean((q_sel − y)²)/2` as a function of one online table entry, targets constant -/
noncomputable def lossOf (batch : List (Bool × ℝ × ℝ)) (x : ℝ) : ℝ :=
  (batch.map (fun s => sampleTerm s.1 s.2.1 s.2.2 x)).sum / batch.length / 2

theorem sampleTerm_deriv (hit : Bool) (y c x : ℝ) :
    HasDerivAt (fun x => sampleTerm hit y c x) (if hit then 2 * (x - y) else 0) x := by
  cases hit
  · simp only [sampleTerm, Bool.false_eq_true, if_false]
    exact hasDerivAt_const x _
  · simp only [sampleTerm, if_true]
    have h1 : HasDerivAt (fun x : ℝ => x - y) 1 x := (hasDerivAt_id x).sub_const y
    exact (h1.mul h1).congr_deriv (by ring)

theorem sum_deriv (batch : List (Bool × ℝ × ℝ)) (x : ℝ) :
    HasDerivAt (fun x => (batch.map (fun s => sampleTerm s.1 s.2.1 s.2.2 x)).sum)
      ((batch.map (fun s => if s.1 then 2 * (x - s.2.1) else 0)).sum) x := by
  induction batch with
  | nil => simpa using hasDerivAt_const x (0 : ℝ)
  | cons s rest ih =>
      simp only [List.map_cons, List.sum_cons]
      exact (sampleTerm_deriv s.1 s.2.1 s.2.2 x).add ih

theorem sum_factor (batch : List (Bool × ℝ × ℝ)) (x : ℝ) :
    (batch.map (fun s : Bool × ℝ × ℝ => if s.1 then 2 * (x - s.2.1) else 0)).sum
      = 2 * (batch.map (fun s : Bool × ℝ × ℝ => if s.1 then (x - s.2.1) else 0)).sum := by
  induction batch with
  | nil => simp
  | cons s rest ih =>
      simp only [List.map_cons, List.sum_cons, ih]
      split <;> ring

/-- **Semi-gradient.**  With the targets `y_i` held constant, the derivative of the loss with
    respect to online entry `(s,a)` is `(1/B) Σ_i 1[(s_i,a_i)=(s,a)] (Q(s,a) − y_i)`. -/
theorem semi_gradient (batch : List (Bool × ℝ × ℝ)) (x : ℝ) :
    HasDerivAt (lossOf batch)
      ((batch.map (fun s => if s.1 then (x - s.2.1) else 0)).sum / batch.length) x := by
  have h := ((sum_deriv batch x).div_const (batch.length : ℝ)).div_const 2
  have hval : (batch.map (fun s : Bool × ℝ × ℝ => if s.1 then 2 * (x - s.2.1) else 0)).sum
      / (batch.length : ℝ) / 2
      = (batch.map (fun s : Bool × ℝ × ℝ => if s.1 then (x - s.2.1) else 0)).sum / batch.length := by
    rw [sum_factor]; ring
  rw [← hval]
  exact h

end gradient

/-! ### non-vacuity -/

example : tdTarget (1/2 : ℚ) 1 4 true true = 3 ∧ tdTarget (1/2 : ℚ) 1 4 true false = 1 := by
  norm_num [tdTarget, notTerminal, ofBool]

example : argmax ([1, 5, 3, 5] : List ℚ) = 1 := by
  norm_num [argmax, argmax.go]

end Lerax.C07
