/-
  Cross-property composition for one on-policy iteration (C04 ∘ C03 ∘ C09 ∘ C08 ∘ C12), over the
  model `LeraxModel/PpoIter.lean`:

  * `epoch_rows_are_buffer_entries` (C09): for every buffer of `E` environments × `T` steps, every
    minibatch size `B > 0` and every permutation, each element of each minibatch of an epoch is
    exactly the sample `(e, t)` of the buffer for some `e < E`, `t < T`, and no `(e, t)` is used
    twice in the epoch.
  * `annotate_spec` (C03 ∘ C04): sample `t` of an environment's processed rollout is its collected
    row `t` together with the GAE advantage / return *of that same step of that same rollout*.
  * `iteration_stream_independent` (C12): environment `i`'s part of the training buffer is a
    function of environment `i`'s step state and keys only.
  * `minibatch_samples_are_annotated_rows` (C04 ∘ C03 ∘ C09): every sample that reaches the loss is a
    collected row with its own advantage and return.
  * `any_minibatch_of_unchanged_policy_is_on_policy` (C04 ∘ C09 ∘ C08): with the policy that
    collected the data, *every* minibatch of *every* shuffling has all probability ratios equal
    to 1, approximate KL 0 and policy loss −mean(Â) — so the first gradient step of every
    iteration is the on-policy policy gradient, for any environment, wrapper stack, number of
    environments, rollout length, minibatch size and permutation.
-/
import LeraxModel.PpoIter
import LeraxProofs.C03
import LeraxProofs.C04
import LeraxProofs.C08
import LeraxProofs.C09
import LeraxProofs.Pipeline

namespace Lerax.PipelineOn
open Lerax.Env Lerax.OnPolicy Lerax.Gae Lerax.Batching Lerax.Loss Lerax.PpoIter

set_option linter.unusedSectionVars false

/-! ### C09: what an epoch hands to the loss -/

section batching
variable {ρ : Type}

/-- the index rows of an epoch only contain indices `< N` and no index twice -/
theorem epoch_indices (N B : Nat) (hB : 0 < B) (perm : List Nat) (hperm : perm.Perm (List.range N)) :
    (∀ r ∈ batchIndices perm B, ∀ i ∈ r, i < N) ∧ (batchIndices perm B).flatten.Nodup := by
  have h := Lerax.C09.batch_partition N B hB perm hperm
  refine ⟨?_, h.2.2.1⟩
  intro r hr i hi
  exact h.2.2.2.1 i (List.mem_flatten.mpr ⟨r, hr, hi⟩)

/-- **C09, composed.**  Every element of every minibatch of an epoch over an `E × T` buffer is the
    buffer's sample `(e, t)` for some `e < E`, `t < T` — whole, and addressed by a flat index that
    occurs only once in the epoch. -/
theorem epoch_rows_are_buffer_entries (T : Nat) (buffer : List (List ρ))
    (hT : ∀ row ∈ buffer, row.length = T) (B : Nat) (hB : 0 < B) (perm : List Nat)
    (hperm : perm.Perm (List.range (buffer.length * T))) :
    (∀ mb ∈ epoch buffer perm B, ∀ x ∈ mb,
        ∃ (e t : Nat) (he : e < buffer.length) (ht : t < buffer[e].length), x = some (buffer[e][t])) ∧
    (batchIndices perm B).flatten.Nodup := by
  obtain ⟨hlt, hnd⟩ := epoch_indices (buffer.length * T) B hB perm hperm
  refine ⟨?_, hnd⟩
  intro mb hmb x hx
  simp only [epoch, List.mem_map] at hmb
  obtain ⟨r, hr, rfl⟩ := hmb
  simp only [gather, List.mem_map] at hx
  obtain ⟨i, hi, rfl⟩ := hx
  have hiN : i < buffer.length * T := hlt r hr i hi
  have hTpos : 0 < T := by
    rcases Nat.eq_zero_or_pos T with h | h
    · subst h; simp at hiN
    · exact h
  have he : i / T < buffer.length := (Nat.div_lt_iff_lt_mul hTpos).mpr hiN
  have htT : i % T < T := Nat.mod_lt _ hTpos
  have hrow : buffer[i / T].length = T := hT _ (List.getElem_mem he)
  have hij : i / T * T + i % T = i := by rw [Nat.mul_comm]; exact Nat.div_add_mod i T
  have hfl := (Lerax.C09.flatten_bijective T buffer hT).2 (i / T) (i % T) htT
  rw [hij] at hfl
  refine ⟨i / T, i % T, he, by rw [hrow]; exact htT, ?_⟩
  rw [hfl, List.getElem?_eq_getElem he, Option.bind_some, List.getElem?_eq_getElem (by rw [hrow]; exact htT)]

end batching

/-! ### C03 ∘ C04: a processed rollout pairs every row with its own advantage and return -/

section annotate
variable {S A O K PS M α : Type} [Keys K] [CommRing α]

theorem annotate_length (γ lam : α) (rows : List (Row PS O A M α)) (last : α) :
    (annotate γ lam rows last).length = rows.length := by
  have h := Lerax.C03.gae_lengths γ lam (rows.map (·.reward)) (rows.map (·.value)) (rows.map (·.done)) last
    (by simp) (by simp)
  simp only [annotate, List.length_zip, h.1, h.2, List.length_map]
  omega

/-- **C03 ∘ C04.**  Sample `t` of a processed rollout is collected row `t` with the advantage and
    return that GAE assigns to step `t` of that very rollout. -/
theorem annotate_spec (γ lam : α) (rows : List (Row PS O A M α)) (last : α) (t : Nat) (ht : t < rows.length) :
    (annotate γ lam rows last)[t]? = some (rows[t],
      (gae γ lam (rows.map (·.reward)) (rows.map (·.value)) (rows.map (·.done)) last).advantages.getD t 0,
      (gae γ lam (rows.map (·.reward)) (rows.map (·.value)) (rows.map (·.done)) last).returns.getD t 0) := by
  have h := Lerax.C03.gae_lengths γ lam (rows.map (·.reward)) (rows.map (·.value)) (rows.map (·.done)) last
    (by simp) (by simp)
  have ha : t < (gae γ lam (rows.map (·.reward)) (rows.map (·.value)) (rows.map (·.done)) last).advantages.length := by
    rw [h.1]; simpa using ht
  have hr : t < (gae γ lam (rows.map (·.reward)) (rows.map (·.value)) (rows.map (·.done)) last).returns.length := by
    rw [h.2]; simpa using ht
  simp only [annotate, List.getElem?_zip_eq_some]
  refine ⟨by simp [ht], ?_⟩
  exact ⟨by simp [List.getD_eq_getElem?_getD, List.getElem?_eq_getElem ha],
         by simp [List.getD_eq_getElem?_getD, List.getElem?_eq_getElem hr]⟩

variable (E : Env S A O α K) (mask : S → K → Option M) (clip : A → A) (P : Policy PS O A M α K)

/-- the rows of a processed rollout are the collected rows, in order -/
theorem collectAndProcess_rows (γ lam : α) (st : StepState S PS) (stepKeys : List K) (postKey : K) :
    (collectAndProcess E mask clip P γ lam st stepKeys postKey).2.map (·.1) =
      (collectRollout E mask clip P γ st stepKeys).2 := by
  simp only [collectAndProcess]
  have hl := annotate_length γ lam (collectRollout E mask clip P γ st stepKeys).2
    (P.value (collectRollout E mask clip P γ st stepKeys).1.policy
      (E.observation (collectRollout E mask clip P γ st stepKeys).1.env postKey))
  apply List.ext_getElem (by simpa using hl)
  intro t h1 h2
  have := annotate_spec γ lam (collectRollout E mask clip P γ st stepKeys).2
    (P.value (collectRollout E mask clip P γ st stepKeys).1.policy
      (E.observation (collectRollout E mask clip P γ st stepKeys).1.env postKey)) t h2
  rw [List.getElem?_eq_some_iff] at this
  obtain ⟨hlt, heq⟩ := this
  simp [heq]

/-- **C12, for the whole collection of an iteration.**  Environment `i`'s part of the training
    buffer is determined by environment `i`'s own step state and keys. -/
theorem iteration_stream_independent (γ lam : α) (envs envs' : List (StepState S PS × List K × K))
    (i : Nat) (h : envs[i]? = envs'[i]?) :
    (iterationBuffer E mask clip P γ lam envs)[i]? = (iterationBuffer E mask clip P γ lam envs')[i]? := by
  simp [iterationBuffer, List.getElem?_map, h]

/-- every environment's processed rollout has `T` samples when every environment got `T` step keys -/
theorem iterationBuffer_uniform (γ lam : α) (envs : List (StepState S PS × List K × K)) (T : Nat)
    (hT : ∀ e ∈ envs, e.2.1.length = T) :
    ∀ row ∈ iterationBuffer E mask clip P γ lam envs, row.length = T := by
  intro row hrow
  simp only [iterationBuffer, List.mem_map] at hrow
  obtain ⟨e, he, rfl⟩ := hrow
  simp only [collectAndProcess]
  rw [annotate_length, Lerax.C04.rollout_length, hT e he]

/-- **C04 ∘ C03 ∘ C09.**  Every sample that reaches the loss in an epoch is, for some environment
    `e` and step `t`, that environment's collected row `t` paired with the advantage and return GAE
    assigns to step `t` of environment `e`'s own rollout (bootstrapped with the policy's value of
    environment `e`'s own final observation). -/
theorem minibatch_samples_are_annotated_rows (γ lam : α) (envs : List (StepState S PS × List K × K)) (T : Nat)
    (hT : ∀ e ∈ envs, e.2.1.length = T) (B : Nat) (hB : 0 < B) (perm : List Nat)
    (hperm : perm.Perm (List.range (envs.length * T))) :
    ∀ mb ∈ epoch (iterationBuffer E mask clip P γ lam envs) perm B, ∀ x ∈ mb,
      ∃ (e t : Nat) (he : e < envs.length),
        let rows := (collectRollout E mask clip P γ envs[e].1 envs[e].2.1).2
        let stN := (collectRollout E mask clip P γ envs[e].1 envs[e].2.1).1
        let last := P.value stN.policy (E.observation stN.env envs[e].2.2)
        let out := gae γ lam (rows.map (·.reward)) (rows.map (·.value)) (rows.map (·.done)) last
        ∃ (ht : t < rows.length), x = some (rows[t], out.advantages.getD t 0, out.returns.getD t 0) := by
  intro mb hmb x hx
  have hlen : (iterationBuffer E mask clip P γ lam envs).length = envs.length := by simp [iterationBuffer]
  have hperm' : perm.Perm (List.range ((iterationBuffer E mask clip P γ lam envs).length * T)) := by
    rw [hlen]; exact hperm
  obtain ⟨e, t, he, ht, rfl⟩ :=
    (epoch_rows_are_buffer_entries T _ (iterationBuffer_uniform E mask clip P γ lam envs T hT) B hB perm hperm').1 mb hmb x hx
  have he' : e < envs.length := by rw [← hlen]; exact he
  refine ⟨e, t, he', ?_⟩
  have hrowlen : (collectRollout E mask clip P γ envs[e].1 envs[e].2.1).2.length = T := by
    rw [Lerax.C04.rollout_length]; exact hT _ (List.getElem_mem he')
  have hbe : (iterationBuffer E mask clip P γ lam envs)[e] =
      (collectAndProcess E mask clip P γ lam envs[e].1 envs[e].2.1 envs[e].2.2).2 := by
    simp [iterationBuffer]
  have htT : t < T := by
    have := iterationBuffer_uniform E mask clip P γ lam envs T hT _ (List.getElem_mem he)
    rw [this] at ht; exact ht
  refine ⟨by rw [hrowlen]; exact htT, ?_⟩
  have hs := annotate_spec γ lam (collectRollout E mask clip P γ envs[e].1 envs[e].2.1).2
    (P.value (collectRollout E mask clip P γ envs[e].1 envs[e].2.1).1.policy
      (E.observation (collectRollout E mask clip P γ envs[e].1 envs[e].2.1).1.env envs[e].2.2)) t
    (by rw [hrowlen]; exact htT)
  rw [List.getElem?_eq_some_iff] at hs
  obtain ⟨hlt, heq⟩ := hs
  congr 1
  rw [← heq]
  simp only [hbe, collectAndProcess]

end annotate

/-! ### C04 ∘ C09 ∘ C08: with the collecting policy every minibatch is on-policy -/

theorem filterMap_id_length {β : Type} (l : List (Option β)) (h : ∀ x ∈ l, ∃ y, x = some y) :
    (l.filterMap id).length = l.length := by
  induction l with
  | nil => rfl
  | cons x xs ih =>
      obtain ⟨y, rfl⟩ := h x (by simp)
      have := ih (fun z hz => h z (by simp [hz]))
      simpa using this

section onpolicy
variable {S A O K PS M α : Type} [Keys K] [Field α] [LinearOrder α] [IsStrictOrderedRing α]
variable (E : Env S A O α K) (mask : S → K → Option M) (clip : A → A) (P : Policy PS O A M α K)

/-- **C04 ∘ C09 ∘ C08.**  Take any coherent policy, collect any number of environments for any
    number of steps, process, shuffle with any permutation, cut into minibatches of any size `B`:
    for EVERY minibatch, the PPO loss evaluated with the *same* policy has approximate KL 0 and
    policy loss `−mean(Â)` (all ratios are 1), whatever the entropies, clip coefficient ε ≥ 0 and
    advantage normalisation. -/
theorem any_minibatch_of_unchanged_policy_is_on_policy (hP : Lerax.C04.Coherent P) (γ lam : α)
    (envs : List (StepState S PS × List K × K)) (T : Nat) (hT : ∀ e ∈ envs, e.2.1.length = T)
    (B : Nat) (hB : 0 < B) (perm : List Nat) (hperm : perm.Perm (List.range (envs.length * T)))
    (exp sqrt : α → α) (hexp : exp 0 = 1) (cfg : Cfg α) (hε : 0 ≤ cfg.clipCoef)
    (ent : Row PS O A M α → α) :
    ∀ mb ∈ epoch (iterationBuffer E mask clip P γ lam envs) perm B,
      let b := lossSamples P ent (mb.filterMap id)
      (ppoLoss exp sqrt cfg b).approxKl = 0 ∧
      (ppoLoss exp sqrt cfg b).policyLoss = - mean (advantages sqrt cfg b) := by
  intro mb hmb b
  have hrows := minibatch_samples_are_annotated_rows E mask clip P γ lam envs T hT B hB perm hperm mb hmb
  -- the minibatch is non-empty: it has exactly B > 0 entries, all of them `some`
  have hmblen : mb.length = B := by
    simp only [epoch, List.mem_map] at hmb
    obtain ⟨r, hr, rfl⟩ := hmb
    have := (Lerax.C09.batch_partition (envs.length * T) B hB perm hperm).2.1 r hr
    simpa [gather] using this
  have hsome : ∀ x ∈ mb, ∃ y, x = some y := by
    intro x hx
    obtain ⟨e, t, he, ht, hxe⟩ := hrows x hx
    exact ⟨_, hxe⟩
  have hfm : (mb.filterMap id).length = B := by
    rw [← hmblen]; exact filterMap_id_length mb hsome
  have hb : b ≠ [] := by
    intro h
    have : b.length = B := by
      show (lossSamples P ent (mb.filterMap id)).length = B
      rw [lossSamples, List.length_map]; exact hfm
    rw [h] at this
    simp at this
    omega
  have hsame : ∀ s ∈ b, s.logpNew = s.logpOld := by
    intro s hs
    simp only [b, lossSamples, List.mem_map, List.mem_filterMap, id] at hs
    obtain ⟨y, ⟨a, hy, rfl⟩, rfl⟩ := hs
    obtain ⟨e, t, he, ht, hxe⟩ := hrows (some y) hy
    simp only [Option.some.injEq] at hxe
    subst hxe
    have := Lerax.Pipeline.rollout_rows_reevaluate E mask clip P hP γ envs[e].1 envs[e].2.1 _
      (List.getElem_mem ht)
    simp [this]
  exact (Lerax.C08.on_policy_ratio_one exp sqrt hexp cfg hε b hb hsame).2

end onpolicy

/-! ### non-vacuity: two toy environments, three steps each, minibatches of two -/

open Lerax.C04 in
example :
    let envs : List (StepState Nat Unit × List Nat × Nat) := [(⟨0, ()⟩, [1, 2, 3], 9), (⟨1, ()⟩, [4, 5, 6], 9)]
    let buf := iterationBuffer toyEnv (fun _ _ => (none : Option Unit)) (fun a => a) toyPolicy (1 : Int) 1 envs
    (buf.map List.length = [3, 3]) ∧
    ((epoch buf [5, 0, 3, 1, 4, 2] 2).map (fun mb => mb.map (fun x => x.map (fun y => y.2.1)))).length = 3 := by
  decide

end Lerax.PipelineOn
