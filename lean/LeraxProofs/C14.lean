/-
  C14 — Spaces: exact membership, member samples, coherent equality.

  Theorems about `LeraxModel/Space.lean` for ALL spaces (arbitrary nesting, shapes, bounds) and
  ALL candidate values, over an arbitrary linearly ordered field `α` (hence ℝ and ℚ).
  `isInt : α → Bool` is the integrality test (`x == floor x`); where a theorem needs it, the
  assumption is exactly `∀ k : ℕ, isInt k = true` (natural numbers are integral).
-/
import LeraxModel.Space
import Mathlib.Algebra.Order.Field.Basic
import Mathlib.Algebra.Order.Field.Rat
import Mathlib.Algebra.Order.Floor.Ring
import Mathlib.Tactic.Linarith

namespace Lerax.C14
open Lerax.Space

set_option linter.unusedSectionVars false
set_option linter.unusedVariables false

variable {α : Type} [Field α] [LinearOrder α] [IsStrictOrderedRing α]
variable (isInt : α → Bool)

/-! ## Extended-real comparisons -/

theorem Num.le_refl_of_ne_nan (x : Num α) (h : x ≠ .nan) : x.le x = true := by
  cases x <;> simp_all [Num.le]

/-- IEEE equality is equality of the denoted numbers (the sign of zero is forgotten) and is
    false for NaN -/
theorem eqv_iff_canon (a b : Num α) : a.eqv b = true ↔ a ≠ .nan ∧ a.canon = b.canon := by
  cases a <;> cases b <;> simp [Num.eqv, Num.le, Num.canon] <;> exact le_antisymm_iff.symm


/-! ## `contains` answers exactly membership, with a scalar boolean -/

theorem allLe_iff : ∀ (a b : List (Num α)),
    allLe a b = true ↔ All2 (fun x y => x.le y = true) a b
  | [], [] => by simp [allLe, All2]
  | [], _ :: _ => by simp [allLe, All2]
  | _ :: _, [] => by simp [allLe, All2]
  | x :: xs, y :: ys => by simp [allLe, All2, allLe_iff xs ys]

theorem isIndex_iff (x : Num α) (n : Nat) : isIndex isInt x n = true ↔ IsIndex isInt x n := by
  cases x <;> simp [isIndex, IsIndex, Num.integral, Num.nonneg, Num.ltNat, Num.le, Num.fin?, and_assoc]

theorem isBit_iff (x : Num α) : isBit x = true ↔ IsBit x := by
  cases x <;> simp [isBit, IsBit, Num.eqv, Num.le, Num.fin?]
  rw [← le_antisymm_iff, ← le_antisymm_iff]

theorem allIndex_iff : ∀ (d : List (Num α)) (nv : List Nat),
    allIndex isInt d nv = true ↔ All2 (IsIndex isInt) d nv
  | [], [] => by simp [allIndex, All2]
  | [], _ :: _ => by simp [allIndex, All2]
  | _ :: _, [] => by simp [allIndex, All2]
  | x :: xs, n :: ns => by simp [allIndex, All2, allIndex_iff xs ns, isIndex_iff]

theorem keysEq_iff (a b : List String) : keysEq a b = true ↔ ∀ k, k ∈ a ↔ k ∈ b := by
  simp only [keysEq, Bool.and_eq_true, List.all_eq_true, List.contains_iff_mem]
  constructor
  · rintro ⟨h1, h2⟩ k; exact ⟨h1 k, h2 k⟩
  · intro h; exact ⟨fun k hk => (h k).1 hk, fun k hk => (h k).2 hk⟩

theorem memList_length : ∀ (ss : List (Space α)) (xs : List (Val α)),
    MemList isInt ss xs → xs.length = ss.length
  | [], [] => by simp
  | [], _ :: _ => by simp [MemList]
  | _ :: _, [] => by simp [MemList]
  | s :: ss, x :: xs => by
      intro h; simp only [MemList] at h; simp [memList_length ss xs h.2]

mutual
/-- **`contains` is true exactly for members** (every space, every candidate value). -/
theorem contains_iff_mem : ∀ (s : Space α) (v : Val α),
    contains isInt s v = true ↔ Mem isInt s v
  | .box sh lo hi, v => by
      simp only [contains, Mem, boxContains]
      cases h : tryCast v with
      | none => simp
      | some p =>
          obtain ⟨xs, d⟩ := p
          simp only [Bool.and_eq_true, beq_iff_eq, allLe_iff, Option.some.injEq, Prod.mk.injEq]
          constructor
          · rintro ⟨⟨h1, h2⟩, h3⟩; exact ⟨d, ⟨h1, rfl⟩, h2, h3⟩
          · rintro ⟨d', ⟨h1, h2⟩, h3, h4⟩; subst h2; exact ⟨⟨h1, h3⟩, h4⟩
  | .discrete n, v => by
      simp only [contains, Mem, discreteContains]
      split
      · next x h => simp [h, isIndex_iff]
      · next h =>
          simp only [Bool.false_eq_true, false_iff, not_exists, not_and]
          intro x hx; exact absurd hx (h x)
  | .multiBinary sh, v => by
      simp only [contains, Mem, multiBinaryContains]
      cases h : tryCast v with
      | none => simp
      | some p =>
          obtain ⟨xs, d⟩ := p
          simp only [Bool.and_eq_true, beq_iff_eq, List.all_eq_true, isBit_iff, Option.some.injEq,
            Prod.mk.injEq]
          constructor
          · rintro ⟨h1, h2⟩; exact ⟨d, ⟨h1, rfl⟩, h2⟩
          · rintro ⟨d', ⟨h1, h2⟩, h3⟩; subst h2; exact ⟨h1, h3⟩
  | .multiDiscrete nv, v => by
      simp only [contains, Mem, multiDiscreteContains]
      cases h : tryCast v with
      | none => simp
      | some p =>
          obtain ⟨xs, d⟩ := p
          simp only [Bool.and_eq_true, beq_iff_eq, allIndex_iff, Option.some.injEq, Prod.mk.injEq]
          constructor
          · rintro ⟨h1, h2⟩; exact ⟨d, ⟨h1, rfl⟩, h2⟩
          · rintro ⟨d', ⟨h1, h2⟩, h3⟩; subst h2; exact ⟨h1, h3⟩
  | .dict fs, v => by
      cases v <;> simp [contains, Mem, keysEq_iff, containsFields_iff fs]
  | .tuple ss, v => by
      cases v <;> simp [contains, Mem, containsList_iff ss]
      intro h; exact memList_length isInt _ _ h
theorem containsFields_iff : ∀ (fs : List (String × Space α)) (kvs : List (String × Val α)),
    containsFields isInt fs kvs = true ↔ MemFields isInt fs kvs
  | [], kvs => by simp [containsFields, MemFields]
  | (k, s) :: fs, kvs => by
      simp only [containsFields, MemFields, Bool.and_eq_true, containsFields_iff fs kvs]
      cases h : kvs.lookup k with
      | none => simp
      | some x => simp [contains_iff_mem s x]
theorem containsList_iff : ∀ (ss : List (Space α)) (xs : List (Val α)),
    containsList isInt ss xs = true ↔ MemList isInt ss xs
  | [], [] => by simp [containsList, MemList]
  | [], _ :: _ => by simp [containsList, MemList]
  | _ :: _, [] => by simp [containsList, MemList]
  | s :: ss, x :: xs => by
      simp [containsList, MemList, contains_iff_mem s x, containsList_iff ss xs]
end

/-- **The answer is always a scalar boolean**, and it is `True` exactly for members. -/
theorem containsR_scalar (s : Space α) (v : Val α) :
    ∃ b, containsR isInt s v = .scalar b ∧ (b = true ↔ Mem isInt s v) :=
  ⟨contains isInt s v, rfl, contains_iff_mem isInt s v⟩

/-- Φ (`phiContains`) holds of the model's own answer. -/
theorem phi_contains (s : Space α) (v : Val α) :
    phiContains isInt s v (containsR isInt s v) = true := by
  simp [phiContains, containsR]


/-! ## Values built in the space's own order (what `sample` and `canonical` return) -/

/-- the items of an `OrderedDict` listed in the Dict space's key order, each a member -/
def InOrder : List (String × Space α) → List (String × Val α) → Prop
  | [], [] => True
  | (k, s) :: fs, (k', x) :: kvs => k = k' ∧ Mem isInt s x ∧ InOrder fs kvs
  | _, _ => False

theorem inOrder_keys : ∀ (fs : List (String × Space α)) (kvs : List (String × Val α)),
    InOrder isInt fs kvs → keys kvs = keys fs
  | [], [] => by simp [keys]
  | [], _ :: _ => by simp [InOrder]
  | _ :: _, [] => by simp [InOrder]
  | (k, s) :: fs, (k', x) :: kvs => by
      intro h; simp only [InOrder] at h
      have := inOrder_keys fs kvs h.2.2
      simp_all [keys]

theorem memFields_cons (k : String) (x : Val α) : ∀ (fs : List (String × Space α))
    (kvs : List (String × Val α)), k ∉ keys fs → MemFields isInt fs kvs →
    MemFields isInt fs ((k, x) :: kvs)
  | [], _ => by simp [MemFields]
  | (k', s) :: fs, kvs => by
      intro hk h
      simp only [MemFields] at h ⊢
      simp only [keys, List.map_cons, List.mem_cons, not_or] at hk
      refine ⟨?_, memFields_cons k x fs kvs (by simpa [keys] using hk.2) h.2⟩
      obtain ⟨y, hy, hm⟩ := h.1
      refine ⟨y, ?_, hm⟩
      have : (k' == k) = false := by simpa using fun h' => hk.1 h'.symm
      simp [List.lookup, this, hy]

theorem inOrder_memFields : ∀ (fs : List (String × Space α)) (kvs : List (String × Val α)),
    nodupKeys (keys fs) = true → InOrder isInt fs kvs → MemFields isInt fs kvs
  | [], _ => by simp [MemFields]
  | _ :: _, [] => by simp [InOrder]
  | (k, s) :: fs, (k', x) :: kvs => by
      intro hn h
      simp only [InOrder] at h
      obtain ⟨rfl, hm, hr⟩ := h
      simp [keys, nodupKeys] at hn
      simp only [MemFields]
      refine ⟨⟨x, by simp [List.lookup], hm⟩, ?_⟩
      exact memFields_cons isInt k x fs kvs (by simpa [keys] using hn.1)
        (inOrder_memFields fs kvs (by simpa [keys] using hn.2) hr)

theorem inOrder_mem_dict (fs : List (String × Space α)) (kvs : List (String × Val α))
    (hn : nodupKeys (keys fs) = true) (h : InOrder isInt fs kvs) :
    Mem isInt (.dict fs) (.odict kvs) := by
  simp only [Mem]
  exact ⟨kvs, rfl, by simp [inOrder_keys isInt fs kvs h], inOrder_memFields isInt fs kvs hn h⟩

/-! ## `sample` returns members -/

theorem sampleEntry_within (l h : Num α) (u e z : α) (hl : l.isLow = true) (hh : h.isHigh = true)
    (hle : l.le h = true) (hu0 : 0 ≤ u) (hu1 : u < 1) (he : 0 ≤ e) :
    l.le (sampleEntry l h u e z) = true ∧ (sampleEntry l h u e z).le h = true := by
  cases l <;> cases h <;> simp_all [Num.isLow, Num.isHigh, sampleEntry, Num.fin?, Num.le]
  · rename_i a b
    have h1 : 0 ≤ b - a := sub_nonneg.2 hle
    exact ⟨mul_nonneg hu0 h1, by nlinarith [mul_le_mul_of_nonneg_right hu1.le h1]⟩
  · rename_i a
    have h1 : 0 ≤ -a := by linarith
    constructor <;> nlinarith [mul_nonneg hu0 h1, mul_le_mul_of_nonneg_right hu1.le h1]
  · rename_i b
    constructor <;> nlinarith [mul_nonneg hu0 hle, mul_le_mul_of_nonneg_right hu1.le hle]


theorem sampleBox_within : ∀ (lo hi : List (Num α)) (us es zs : List α),
    boundsOk lo hi = true → boxDrawsOk lo.length us es zs →
    (sampleBox lo hi us es zs).length = lo.length ∧
    All2 (fun x y => x.le y = true) lo (sampleBox lo hi us es zs) ∧
    All2 (fun x y => x.le y = true) (sampleBox lo hi us es zs) hi
  | [], [], us, es, zs => by
      intro _ _; cases us <;> cases es <;> cases zs <;> simp [sampleBox, All2]
  | [], _ :: _, _, _, _ => by simp [boundsOk]
  | _ :: _, [], _, _, _ => by simp [boundsOk]
  | l :: ls, h :: hs, us, es, zs => by
      intro hb hd
      obtain ⟨hu, he, hz, hur, her⟩ := hd
      cases us with
      | nil => simp at hu
      | cons u us =>
      cases es with
      | nil => simp at he
      | cons e es =>
      cases zs with
      | nil => simp at hz
      | cons z zs =>
      simp only [boundsOk, Bool.and_eq_true] at hb
      obtain ⟨⟨⟨hl, hh⟩, hle⟩, hrest⟩ := hb
      have hu' := hur u (by simp)
      have ih := sampleBox_within ls hs us es zs hrest
        ⟨by simpa using hu, by simpa using he, by simpa using hz,
         fun u' hu' => hur u' (by simp [hu']), fun e' he' => her e' (by simp [he'])⟩
      have h1 := sampleEntry_within l h u e z hl hh hle hu'.1 hu'.2 (her e (by simp))
      simp only [sampleBox, All2, List.length_cons]
      exact ⟨by rw [ih.1], ⟨h1.1, ih.2.1⟩, ⟨h1.2, ih.2.2⟩⟩

theorem all2_index_of_lt (hInt : ∀ k : Nat, isInt (k : α) = true) : ∀ (ix nv : List Nat),
    All2 (fun i n => i < n) ix nv →
    All2 (IsIndex isInt) (ix.map (fun (i : Nat) => Num.fin (Nat.cast i : α))) nv
  | [], [] => by simp [All2]
  | [], _ :: _ => by simp [All2]
  | _ :: _, [] => by simp [All2]
  | i :: ix, n :: nv => by
      intro h
      simp only [All2] at h
      simp only [List.map_cons, All2]
      exact ⟨⟨(i : α), rfl, hInt i, Nat.cast_nonneg i, by exact_mod_cast h.1⟩,
        all2_index_of_lt hInt ix nv h.2⟩

theorem tryCast_arr (sh : List Nat) (d : List (Num α)) (h : d.length = prod sh) :
    tryCast (Val.arr sh d) = some (sh, d) := by simp [tryCast, h]

mutual
/-- **Every sample is a member**: for a well-formed space and draws in the range promised by
    `jax.random` (`u ∈ [0,1)`, `e ≥ 0`, any normal `z`, indices below their bounds). -/
theorem sample_mem (hInt : ∀ k : Nat, isInt (k : α) = true) : ∀ (s : Space α) (d : Draw α),
    wellFormed s = true → DrawOk s d → Mem isInt s (sample s d)
  | .box sh lo hi, d => by
      intro hw hd
      cases d <;> simp only [DrawOk] at hd
      rename_i us es zs
      simp only [wellFormed, Bool.and_eq_true, beq_iff_eq] at hw
      obtain ⟨h1, h2, h3⟩ := sampleBox_within lo hi us es zs hw.2 hd
      simp only [sample, Mem]
      exact ⟨_, tryCast_arr _ _ (by rw [h1, hw.1]), h2, h3⟩
  | .discrete n, d => by
      intro hw hd
      cases d <;> simp only [DrawOk] at hd
      rename_i i
      simp only [sample, Mem]
      exact ⟨_, tryCast_arr _ _ (by simp [prod]),
        ⟨(i : α), rfl, hInt i, Nat.cast_nonneg i, by exact_mod_cast hd⟩⟩
  | .multiBinary sh, d => by
      intro hw hd
      cases d <;> simp only [DrawOk] at hd
      rename_i bs
      simp only [sample, Mem]
      refine ⟨_, tryCast_arr _ _ (by simp [hd]), ?_⟩
      intro x hx
      simp only [List.mem_map] at hx
      obtain ⟨b, _, rfl⟩ := hx
      cases b <;> simp [ofBit, IsBit, Num.fin?]
  | .multiDiscrete nv, d => by
      intro hw hd
      cases d <;> simp only [DrawOk] at hd
      rename_i ix
      have h := all2_index_of_lt isInt hInt ix nv hd
      simp only [sample, Mem]
      refine ⟨_, tryCast_arr _ _ ?_, h⟩
      have : ∀ (a : List (Num α)) (b : List Nat), All2 (IsIndex isInt) a b → a.length = b.length := by
        intro a
        induction a with
        | nil => intro b hb; cases b <;> simp_all [All2]
        | cons x xs ih => intro b hb; cases b <;> simp_all [All2]; exact ih _ hb.2
      simp [prod, this _ _ h]
  | .dict fs, d => by
      intro hw hd
      cases d <;> simp only [DrawOk] at hd
      rename_i ds
      simp only [wellFormed, Bool.and_eq_true] at hw
      simp only [sample]
      exact inOrder_mem_dict isInt fs _ hw.1 (sampleFields_inOrder hInt fs ds hw.2 hd)
  | .tuple ss, d => by
      intro hw hd
      cases d <;> simp only [DrawOk] at hd
      rename_i ds
      simp only [wellFormed, Bool.and_eq_true] at hw
      simp only [sample, Mem]
      exact ⟨_, rfl, sampleList_mem hInt ss ds hw.2 hd⟩
theorem sampleFields_inOrder (hInt : ∀ k : Nat, isInt (k : α) = true) :
    ∀ (fs : List (String × Space α)) (ds : List (Draw α)),
    wellFormedFields fs = true → DrawOkFields fs ds → InOrder isInt fs (sampleFields fs ds)
  | [], [] => by simp [sampleFields, InOrder]
  | [], _ :: _ => by simp [DrawOkFields]
  | _ :: _, [] => by simp [DrawOkFields]
  | (k, s) :: fs, d :: ds => by
      intro hw hd
      simp only [wellFormedFields, Bool.and_eq_true] at hw
      simp only [DrawOkFields] at hd
      simp only [sampleFields, InOrder]
      exact ⟨trivial, sample_mem hInt s d hw.1 hd.1, sampleFields_inOrder hInt fs ds hw.2 hd.2⟩
theorem sampleList_mem (hInt : ∀ k : Nat, isInt (k : α) = true) :
    ∀ (ss : List (Space α)) (ds : List (Draw α)),
    wellFormedList ss = true → DrawOkList ss ds → MemList isInt ss (sampleList ss ds)
  | [], [] => by simp [sampleList, MemList]
  | [], _ :: _ => by simp [DrawOkList]
  | _ :: _, [] => by simp [DrawOkList]
  | s :: ss, d :: ds => by
      intro hw hd
      simp only [wellFormedList, Bool.and_eq_true] at hw
      simp only [DrawOkList] at hd
      simp only [sampleList, MemList]
      exact ⟨sample_mem hInt s d hw.1 hd.1, sampleList_mem hInt ss ds hw.2 hd.2⟩
end


/-- **A `Discrete` mask is honoured**: an index to which `jr.choice` gives non-zero probability
    `p = mask / sum(mask)` is an allowed one. -/
theorem choice_nonzero_allowed (mask : List Bool) (i : Nat)
    (h : (choiceProbs (α := α) mask).getD i 0 ≠ 0) : mask.getD i false = true := by
  simp only [choiceProbs, List.map_map, List.getD_eq_getElem?_getD, List.getElem?_map] at h ⊢
  cases hm : mask[i]? with
  | none => simp [hm] at h
  | some b => cases b <;> simp_all

/-- Φ (`phiMember`) holds of the model's sample of `Discrete(n)` under a mask whenever the drawn
    index has non-zero probability. -/
theorem sample_discrete_mask (hInt : ∀ k : Nat, isInt (k : α) = true) (n : Nat) (mask : List Bool)
    (i : Nat) (hi : i < n) (hp : (choiceProbs (α := α) mask).getD i 0 ≠ 0) :
    phiMember isInt (.discrete n) (some mask) (sample (.discrete n) (.index i)) = true := by
  have hm := choice_nonzero_allowed mask i hp
  have hmem := sample_mem isInt hInt (.discrete n) (.index i) (by simp [wellFormed]; omega) hi
  simp only [phiMember, Bool.and_eq_true, (contains_iff_mem isInt _ _).2 hmem, true_and]
  simp only [sample, maskAllows, List.any_eq_true, List.mem_range, Bool.and_eq_true]
  have hlen : i < mask.length := by
    by_contra hc
    simp [List.getD_eq_getElem?_getD, List.getElem?_eq_none (Nat.le_of_not_lt hc)] at hm
  exact ⟨i, hlen, hm, by simp [Num.eqv, Num.le]⟩

/-! ## `canonical` returns a member -/

theorem canonicalEntry_within (l h : Num α) (hl : l.isLow = true) (hh : h.isHigh = true)
    (hle : l.le h = true) :
    l.le (canonicalEntry l h) = true ∧ (canonicalEntry l h).le h = true := by
  have h2 : (1 + 1 : α) = 2 := one_add_one_eq_two
  have h2pos : (0 : α) < 2 := two_pos
  cases l <;> cases h <;>
    simp_all [Num.isLow, Num.isHigh, canonicalEntry, clipZero, Num.fin?, Num.le]
  all_goals (try (split_ifs <;> simp_all))
  all_goals (first | (constructor <;> linarith) | linarith)


theorem canonicalBox_within : ∀ (lo hi : List (Num α)), boundsOk lo hi = true →
    (canonicalBox lo hi).length = lo.length ∧
    All2 (fun x y => x.le y = true) lo (canonicalBox lo hi) ∧
    All2 (fun x y => x.le y = true) (canonicalBox lo hi) hi
  | [], [] => by simp [canonicalBox, All2]
  | [], _ :: _ => by simp [boundsOk]
  | _ :: _, [] => by simp [boundsOk]
  | l :: ls, h :: hs => by
      intro hb
      simp only [boundsOk, Bool.and_eq_true] at hb
      obtain ⟨⟨⟨hl, hh⟩, hle⟩, hrest⟩ := hb
      have ih := canonicalBox_within ls hs hrest
      have h1 := canonicalEntry_within l h hl hh hle
      simp only [canonicalBox, All2, List.length_cons]
      exact ⟨by rw [ih.1], ⟨h1.1, ih.2.1⟩, ⟨h1.2, ih.2.2⟩⟩

theorem isIndex_zero (h0 : isInt (0 : α) = true) (n : Nat) (hn : 0 < n) :
    IsIndex isInt (Num.fin (0 : α)) n :=
  ⟨0, rfl, h0, le_refl _, by exact_mod_cast hn⟩

mutual
/-- **`canonical()` is a member** of every well-formed space — infinite bounds included (the
    repaired `Box.canonical` clips 0 into a half-infinite or unbounded interval). -/
theorem canonical_mem (h0 : isInt (0 : α) = true) : ∀ (s : Space α),
    wellFormed s = true → Mem isInt s (canonical s)
  | .box sh lo hi => by
      intro hw
      simp only [wellFormed, Bool.and_eq_true, beq_iff_eq] at hw
      obtain ⟨h1, h2, h3⟩ := canonicalBox_within lo hi hw.2
      simp only [canonical, Mem]
      exact ⟨_, tryCast_arr _ _ (by rw [h1, hw.1]), h2, h3⟩
  | .discrete n => by
      intro hw
      simp only [wellFormed, decide_eq_true_eq] at hw
      simp only [canonical, Mem]
      exact ⟨_, tryCast_arr _ _ (by simp [prod]), isIndex_zero isInt h0 n hw⟩
  | .multiBinary sh => by
      intro _
      simp only [canonical, Mem]
      refine ⟨_, tryCast_arr _ _ (by simp), ?_⟩
      intro x hx
      rw [List.eq_of_mem_replicate hx]
      simp [IsBit, Num.fin?]
  | .multiDiscrete nv => by
      intro hw
      simp only [wellFormed, Bool.and_eq_true, List.all_eq_true, decide_eq_true_eq] at hw
      simp only [canonical, Mem]
      refine ⟨_, tryCast_arr _ _ (by simp [prod]), ?_⟩
      have : ∀ (nv : List Nat), (∀ n ∈ nv, 0 < n) →
          All2 (IsIndex isInt) (List.replicate nv.length (Num.fin (0 : α))) nv := by
        intro nv
        induction nv with
        | nil => simp [All2]
        | cons n ns ih =>
            intro h
            simp only [List.length_cons, List.replicate_succ, All2]
            exact ⟨isIndex_zero isInt h0 n (h n (by simp)), ih (fun m hm => h m (by simp [hm]))⟩
      exact this nv hw.2
  | .dict fs => by
      intro hw
      simp only [wellFormed, Bool.and_eq_true] at hw
      simp only [canonical]
      exact inOrder_mem_dict isInt fs _ hw.1 (canonicalFields_inOrder h0 fs hw.2)
  | .tuple ss => by
      intro hw
      simp only [wellFormed, Bool.and_eq_true] at hw
      simp only [canonical, Mem]
      exact ⟨_, rfl, canonicalList_mem h0 ss hw.2⟩
theorem canonicalFields_inOrder (h0 : isInt (0 : α) = true) :
    ∀ (fs : List (String × Space α)),
    wellFormedFields fs = true → InOrder isInt fs (canonicalFields fs)
  | [] => by simp [canonicalFields, InOrder]
  | (k, s) :: fs => by
      intro hw
      simp only [wellFormedFields, Bool.and_eq_true] at hw
      simp only [canonicalFields, InOrder]
      exact ⟨trivial, canonical_mem h0 s hw.1, canonicalFields_inOrder h0 fs hw.2⟩
theorem canonicalList_mem (h0 : isInt (0 : α) = true) : ∀ (ss : List (Space α)),
    wellFormedList ss = true → MemList isInt ss (canonicalList ss)
  | [] => by simp [canonicalList, MemList]
  | s :: ss => by
      intro hw
      simp only [wellFormedList, Bool.and_eq_true] at hw
      simp only [canonicalList, MemList]
      exact ⟨canonical_mem h0 s hw.1, canonicalList_mem h0 ss hw.2⟩
end

/-! ## `flatten_sample`: `flat_size` numbers that determine the sample -/

theorem flatten_const_length (sh : List Nat) : ∀ (rest : List (Arr α)),
    (∀ a ∈ rest, a.1 = sh ∧ a.2.length = prod sh) →
    ((rest.map (·.2)).flatten).length = rest.length * prod sh
  | [] => by simp
  | a :: rest => by
      intro h
      have ih := flatten_const_length sh rest (fun b hb => h b (by simp [hb]))
      have ha := (h a (by simp)).2
      simp only [List.map_cons, List.flatten_cons, List.length_append, List.length_cons, ih, ha]
      rw [Nat.succ_mul]; omega

theorem stack_length (parts : List (Arr α)) (h : ∀ a ∈ parts, a.2.length = prod a.1)
    (sh : List Nat) (d : List (Num α)) (hs : stack parts = some (sh, d)) : d.length = prod sh := by
  cases parts with
  | nil => simp [stack] at hs; obtain ⟨rfl, rfl⟩ := hs; simp [prod]
  | cons a rest =>
      obtain ⟨sh0, d0⟩ := a
      simp only [stack] at hs
      split_ifs at hs with hall
      simp only [Option.some.injEq, Prod.mk.injEq] at hs
      obtain ⟨rfl, rfl⟩ := hs
      simp only [List.all_eq_true, beq_iff_eq] at hall
      have h0 : d0.length = prod sh0 := h (sh0, d0) (by simp)
      have hr := flatten_const_length sh0 rest
        (fun b hb => ⟨hall b hb, by rw [h b (by simp [hb]), hall b hb]⟩)
      simp only [List.length_append, hr, h0, prod]
      rw [Nat.succ_mul]; omega

mutual
/-- `try_cast` only produces arrays whose data fill their shape -/
theorem tryCast_length : ∀ (v : Val α) (sh : List Nat) (d : List (Num α)),
    tryCast v = some (sh, d) → d.length = prod sh
  | .arr sh' d', sh, d => by
      intro h
      simp only [tryCast] at h
      split_ifs at h with hl
      simp only [Option.some.injEq, Prod.mk.injEq] at h
      obtain ⟨rfl, rfl⟩ := h; exact hl
  | .tuple xs, sh, d => by
      intro h
      simp only [tryCast] at h
      cases hc : castAll xs with
      | none => simp [hc] at h
      | some parts => rw [hc] at h; exact stack_length parts (castAll_length xs parts hc) sh d h
  | .list xs, sh, d => by
      intro h
      simp only [tryCast] at h
      cases hc : castAll xs with
      | none => simp [hc] at h
      | some parts => rw [hc] at h; exact stack_length parts (castAll_length xs parts hc) sh d h
  | .odict _, _, _ => by simp [tryCast]
  | .pdict _, _, _ => by simp [tryCast]
  | .foreign, _, _ => by simp [tryCast]
theorem castAll_length : ∀ (xs : List (Val α)) (parts : List (Arr α)),
    castAll xs = some parts → ∀ a ∈ parts, a.2.length = prod a.1
  | [], parts => by
      intro h; simp only [castAll, Option.some.injEq] at h; subst h; simp
  | x :: xs, parts => by
      intro h
      simp only [castAll] at h
      cases hx : tryCast x with
      | none => simp [hx] at h
      | some a =>
          cases hr : castAll xs with
          | none => simp [hx, hr] at h
          | some as =>
              simp only [hx, hr, Option.some.injEq] at h
              subst h
              intro b hb
              simp only [List.mem_cons] at hb
              rcases hb with rfl | hb
              · exact tryCast_length x b.1 b.2 hx
              · exact castAll_length xs as hr b hb
end


theorem all2_length {β γ : Type} (R : β → γ → Prop) : ∀ (a : List β) (b : List γ),
    All2 R a b → a.length = b.length
  | [], [] => by simp
  | [], _ :: _ => by simp [All2]
  | _ :: _, [] => by simp [All2]
  | _ :: xs, _ :: ys => by intro h; simp only [All2] at h; simp [all2_length R xs ys h.2]

mutual
/-- **`flatten_sample` returns exactly `flat_size` numbers** on members. -/
theorem flatten_length : ∀ (s : Space α) (v : Val α),
    Mem isInt s v → (flatten s v).length = flatSize s
  | .box sh lo hi, v => by
      rintro ⟨d, hd, _⟩
      simp [flatten, leafFlatten, hd, flatSize, tryCast_length v sh d hd]
  | .discrete n, v => by
      rintro ⟨x, hx, _⟩
      simp [flatten, leafFlatten, hx, flatSize]
  | .multiBinary sh, v => by
      rintro ⟨d, hd, _⟩
      simp [flatten, leafFlatten, hd, flatSize, tryCast_length v sh d hd]
  | .multiDiscrete nv, v => by
      rintro ⟨d, hd, _⟩
      simp [flatten, leafFlatten, hd, flatSize, tryCast_length v _ d hd, prod]
  | .dict fs, v => by
      rintro ⟨kvs, rfl, _, hm⟩
      simp only [flatten, flatSize]
      exact flattenFields_length fs kvs hm
  | .tuple ss, v => by
      rintro ⟨xs, rfl, hm⟩
      simp only [flatten, flatSize]
      exact flattenList_length ss xs hm
theorem flattenFields_length : ∀ (fs : List (String × Space α)) (kvs : List (String × Val α)),
    MemFields isInt fs kvs → (flattenFields fs kvs).length = flatSizeFields fs
  | [], _ => by simp [flattenFields, flatSizeFields]
  | (k, s) :: fs, kvs => by
      rintro ⟨⟨x, hx, hm⟩, hr⟩
      simp [flattenFields, flatSizeFields, hx, flatten_length s x hm, flattenFields_length fs kvs hr]
theorem flattenList_length : ∀ (ss : List (Space α)) (xs : List (Val α)),
    MemList isInt ss xs → (flattenList ss xs).length = flatSizeList ss
  | [], [] => by simp [flattenList, flatSizeList]
  | [], _ :: _ => by simp [MemList]
  | _ :: _, [] => by simp [MemList]
  | s :: ss, x :: xs => by
      rintro ⟨hm, hr⟩
      simp [flattenList, flatSizeList, flatten_length s x hm, flattenList_length ss xs hr]
end

mutual
/-- **The flat vector determines the sample**: the decoder `unflatten` rebuilds (the normal form
    of) every member from its flat vector. -/
theorem unflatten_flatten : ∀ (s : Space α) (v : Val α),
    Mem isInt s v → unflatten s (flatten s v) = normalize s v
  | .box sh lo hi, v => by
      rintro ⟨d, hd, _⟩
      simp [flatten, unflatten, normalize, leafFlatten, leafNormalize, hd]
  | .discrete n, v => by
      rintro ⟨x, hx, _⟩
      simp [flatten, unflatten, normalize, leafFlatten, leafNormalize, hx]
  | .multiBinary sh, v => by
      rintro ⟨d, hd, _⟩
      simp [flatten, unflatten, normalize, leafFlatten, leafNormalize, hd]
  | .multiDiscrete nv, v => by
      rintro ⟨d, hd, _⟩
      simp [flatten, unflatten, normalize, leafFlatten, leafNormalize, hd]
  | .dict fs, v => by
      rintro ⟨kvs, rfl, _, hm⟩
      simp only [flatten, unflatten, normalize, unflattenFields_flatten fs kvs hm]
  | .tuple ss, v => by
      rintro ⟨xs, rfl, hm⟩
      simp only [flatten, unflatten, normalize, unflattenList_flatten ss xs hm]
theorem unflattenFields_flatten : ∀ (fs : List (String × Space α)) (kvs : List (String × Val α)),
    MemFields isInt fs kvs → unflattenFields fs (flattenFields fs kvs) = normalizeFields fs kvs
  | [], _ => by simp [unflattenFields, normalizeFields]
  | (k, s) :: fs, kvs => by
      rintro ⟨⟨x, hx, hm⟩, hr⟩
      have hl := flatten_length isInt s x hm
      simp only [flattenFields, unflattenFields, normalizeFields, hx]
      rw [List.take_left' hl, List.drop_left' hl, unflatten_flatten s x hm,
        unflattenFields_flatten fs kvs hr]
theorem unflattenList_flatten : ∀ (ss : List (Space α)) (xs : List (Val α)),
    MemList isInt ss xs → unflattenList ss (flattenList ss xs) = normalizeList ss xs
  | [], [] => by simp [unflattenList, normalizeList]
  | [], _ :: _ => by simp [MemList]
  | _ :: _, [] => by simp [MemList]
  | s :: ss, x :: xs => by
      rintro ⟨hm, hr⟩
      have hl := flatten_length isInt s x hm
      simp only [flattenList, unflattenList, normalizeList]
      rw [List.take_left' hl, List.drop_left' hl, unflatten_flatten s x hm,
        unflattenList_flatten ss xs hr]
end

/-- **`flatten_sample` is injective on members** (up to the normal form: array-likes read as
    arrays, `OrderedDict` items in the space's key order). -/
theorem flatten_injective_on_members (s : Space α) (v w : Val α) (hv : Mem isInt s v)
    (hw : Mem isInt s w) (h : flatten s v = flatten s w) : normalize s v = normalize s w := by
  rw [← unflatten_flatten isInt s v hv, ← unflatten_flatten isInt s w hw, h]


/-! ### plain samples (arrays at the leaves, items in the space's key order — what `sample`
    and `canonical` return) are their own normal form, so `flatten_sample` determines them exactly -/

mutual
def Plain : Space α → Val α → Prop
  | .box sh _ _, v => ∃ d, v = .arr sh d ∧ d.length = prod sh
  | .discrete _, v => ∃ d, v = .arr [] d ∧ d.length = 1
  | .multiBinary sh, v => ∃ d, v = .arr sh d ∧ d.length = prod sh
  | .multiDiscrete nv, v => ∃ d, v = .arr [nv.length] d ∧ d.length = nv.length
  | .dict fs, v => ∃ kvs, v = .odict kvs ∧ PlainFields fs kvs
  | .tuple ss, v => ∃ xs, v = .tuple xs ∧ PlainList ss xs
def PlainFields : List (String × Space α) → List (String × Val α) → Prop
  | [], [] => True
  | (k, s) :: fs, (k', x) :: kvs => k = k' ∧ Plain s x ∧ PlainFields fs kvs
  | _, _ => False
def PlainList : List (Space α) → List (Val α) → Prop
  | [], [] => True
  | s :: ss, x :: xs => Plain s x ∧ PlainList ss xs
  | _, _ => False
end

theorem normalizeFields_cons (k : String) (x : Val α) : ∀ (fs : List (String × Space α))
    (kvs : List (String × Val α)), k ∉ keys fs →
    normalizeFields fs ((k, x) :: kvs) = normalizeFields fs kvs
  | [], _ => by simp [normalizeFields]
  | (k', s) :: fs, kvs => by
      intro hk
      simp only [keys, List.map_cons, List.mem_cons, not_or] at hk
      have : (k' == k) = false := by simpa using fun h' => hk.1 h'.symm
      simp only [normalizeFields, List.lookup, this]
      rw [normalizeFields_cons k x fs kvs (by simpa [keys] using hk.2)]

mutual
theorem normalize_plain : ∀ (s : Space α) (v : Val α), wellFormed s = true → Plain s v →
    normalize s v = v
  | .box sh lo hi, v => by
      rintro _ ⟨d, rfl, hd⟩; simp [normalize, leafNormalize, tryCast, hd]
  | .discrete n, v => by
      rintro _ ⟨d, rfl, hd⟩; simp [normalize, leafNormalize, tryCast, hd, prod]
  | .multiBinary sh, v => by
      rintro _ ⟨d, rfl, hd⟩; simp [normalize, leafNormalize, tryCast, hd]
  | .multiDiscrete nv, v => by
      rintro _ ⟨d, rfl, hd⟩; simp [normalize, leafNormalize, tryCast, hd, prod]
  | .dict fs, v => by
      rintro hw ⟨kvs, rfl, hp⟩
      simp only [wellFormed, Bool.and_eq_true] at hw
      simp only [normalize, normalizeFields_plain fs kvs hw.1 hw.2 hp]
  | .tuple ss, v => by
      rintro hw ⟨xs, rfl, hp⟩
      simp only [wellFormed, Bool.and_eq_true] at hw
      simp only [normalize, normalizeList_plain ss xs hw.2 hp]
theorem normalizeFields_plain : ∀ (fs : List (String × Space α)) (kvs : List (String × Val α)),
    nodupKeys (keys fs) = true → wellFormedFields fs = true → PlainFields fs kvs →
    normalizeFields fs kvs = kvs
  | [], [] => by simp [normalizeFields]
  | [], _ :: _ => by simp [PlainFields]
  | _ :: _, [] => by simp [PlainFields]
  | (k, s) :: fs, (k', x) :: kvs => by
      intro hn hw hp
      simp only [PlainFields] at hp
      obtain ⟨rfl, hx, hr⟩ := hp
      simp only [wellFormedFields, Bool.and_eq_true] at hw
      simp [keys, nodupKeys] at hn
      simp only [normalizeFields, List.lookup, beq_self_eq_true]
      rw [normalize_plain s x hw.1 hx, normalizeFields_cons k x fs kvs (by simpa [keys] using hn.1),
        normalizeFields_plain fs kvs (by simpa [keys] using hn.2) hw.2 hr]
theorem normalizeList_plain : ∀ (ss : List (Space α)) (xs : List (Val α)),
    wellFormedList ss = true → PlainList ss xs → normalizeList ss xs = xs
  | [], [] => by simp [normalizeList]
  | [], _ :: _ => by simp [PlainList]
  | _ :: _, [] => by simp [PlainList]
  | s :: ss, x :: xs => by
      intro hw hp
      simp only [PlainList] at hp
      simp only [wellFormedList, Bool.and_eq_true] at hw
      simp only [normalizeList, normalize_plain s x hw.1 hp.1, normalizeList_plain ss xs hw.2 hp.2]
end

/-- **Two plain members with the same flat vector are the same sample.** -/
theorem flatten_injective_on_plain_members (s : Space α) (v w : Val α) (hs : wellFormed s = true)
    (hv : Mem isInt s v) (hw : Mem isInt s w) (pv : Plain s v) (pw : Plain s w)
    (h : flatten s v = flatten s w) : v = w := by
  have := flatten_injective_on_members isInt s v w hv hw h
  rwa [normalize_plain s v hs pv, normalize_plain s w hs pw] at this

mutual
/-- `sample` returns plain values -/
theorem sample_plain : ∀ (s : Space α) (d : Draw α), wellFormed s = true → DrawOk s d →
    Plain s (sample s d)
  | .box sh lo hi, d => by
      intro hw hd
      cases d <;> simp only [DrawOk] at hd
      rename_i us es zs
      simp only [wellFormed, Bool.and_eq_true, beq_iff_eq] at hw
      obtain ⟨h1, _, _⟩ := sampleBox_within lo hi us es zs hw.2 hd
      exact ⟨_, rfl, by rw [h1, hw.1]⟩
  | .discrete n, d => by
      intro _ hd; cases d <;> simp only [DrawOk] at hd
      exact ⟨_, rfl, rfl⟩
  | .multiBinary sh, d => by
      intro _ hd; cases d <;> simp only [DrawOk] at hd
      exact ⟨_, rfl, by simp [hd]⟩
  | .multiDiscrete nv, d => by
      intro _ hd; cases d <;> simp only [DrawOk] at hd
      rename_i ix
      exact ⟨_, rfl, by simp [all2_length _ ix nv hd]⟩
  | .dict fs, d => by
      intro hw hd; cases d <;> simp only [DrawOk] at hd
      rename_i ds
      simp only [wellFormed, Bool.and_eq_true] at hw
      exact ⟨_, rfl, sampleFields_plain fs ds hw.2 hd⟩
  | .tuple ss, d => by
      intro hw hd; cases d <;> simp only [DrawOk] at hd
      rename_i ds
      simp only [wellFormed, Bool.and_eq_true] at hw
      exact ⟨_, rfl, sampleList_plain ss ds hw.2 hd⟩
theorem sampleFields_plain : ∀ (fs : List (String × Space α)) (ds : List (Draw α)),
    wellFormedFields fs = true → DrawOkFields fs ds → PlainFields fs (sampleFields fs ds)
  | [], [] => by simp [sampleFields, PlainFields]
  | [], _ :: _ => by simp [DrawOkFields]
  | _ :: _, [] => by simp [DrawOkFields]
  | (k, s) :: fs, d :: ds => by
      intro hw hd
      simp only [wellFormedFields, Bool.and_eq_true] at hw
      simp only [DrawOkFields] at hd
      simp only [sampleFields, PlainFields]
      exact ⟨trivial, sample_plain s d hw.1 hd.1, sampleFields_plain fs ds hw.2 hd.2⟩
theorem sampleList_plain : ∀ (ss : List (Space α)) (ds : List (Draw α)),
    wellFormedList ss = true → DrawOkList ss ds → PlainList ss (sampleList ss ds)
  | [], [] => by simp [sampleList, PlainList]
  | [], _ :: _ => by simp [DrawOkList]
  | _ :: _, [] => by simp [DrawOkList]
  | s :: ss, d :: ds => by
      intro hw hd
      simp only [wellFormedList, Bool.and_eq_true] at hw
      simp only [DrawOkList] at hd
      simp only [sampleList, PlainList]
      exact ⟨sample_plain s d hw.1 hd.1, sampleList_plain ss ds hw.2 hd.2⟩
end

/-- **Samples are determined by their flat vectors**: two samples of a well-formed space (draws in
    range) that flatten to the same vector are equal. -/
theorem flatten_determines_sample (hInt : ∀ k : Nat, isInt (k : α) = true) (s : Space α)
    (d d' : Draw α) (hs : wellFormed s = true) (hd : DrawOk s d) (hd' : DrawOk s d')
    (h : flatten s (sample s d) = flatten s (sample s d')) : sample s d = sample s d' :=
  flatten_injective_on_plain_members isInt s _ _ hs (sample_mem isInt hInt s d hs hd)
    (sample_mem isInt hInt s d' hs hd') (sample_plain s d hs hd) (sample_plain s d' hs hd') h

/-! ## `==` is exact and agrees with `hash` -/

/-- no bound of any Box inside the space is NaN (implied by well-formedness) -/
def noNaNList : List (Num α) → Prop
  | [] => True
  | x :: xs => x ≠ .nan ∧ noNaNList xs

mutual
def NoNaN : Space α → Prop
  | .box _ lo hi => noNaNList lo ∧ noNaNList hi
  | .discrete _ => True
  | .multiBinary _ => True
  | .multiDiscrete _ => True
  | .dict fs => NoNaNFields fs
  | .tuple ss => NoNaNList ss
def NoNaNFields : List (String × Space α) → Prop
  | [] => True
  | (_, s) :: fs => NoNaN s ∧ NoNaNFields fs
def NoNaNList : List (Space α) → Prop
  | [] => True
  | s :: ss => NoNaN s ∧ NoNaNList ss
end

theorem boundsOk_noNaN : ∀ (lo hi : List (Num α)), boundsOk lo hi = true →
    noNaNList lo ∧ noNaNList hi
  | [], [] => by simp [noNaNList]
  | [], _ :: _ => by simp [boundsOk]
  | _ :: _, [] => by simp [boundsOk]
  | l :: ls, h :: hs => by
      intro hb
      simp only [boundsOk, Bool.and_eq_true] at hb
      obtain ⟨⟨⟨hl, hh⟩, _⟩, hrest⟩ := hb
      have ih := boundsOk_noNaN ls hs hrest
      refine ⟨⟨?_, ih.1⟩, ⟨?_, ih.2⟩⟩
      · intro h'; subst h'; simp [Num.isLow] at hl
      · intro h'; subst h'; simp [Num.isHigh] at hh

mutual
theorem wellFormed_noNaN : ∀ (s : Space α), wellFormed s = true → NoNaN s
  | .box sh lo hi => by
      intro hw; simp only [wellFormed, Bool.and_eq_true] at hw
      simpa [NoNaN] using boundsOk_noNaN lo hi hw.2
  | .discrete _ => by simp [NoNaN]
  | .multiBinary _ => by simp [NoNaN]
  | .multiDiscrete _ => by simp [NoNaN]
  | .dict fs => by
      intro hw; simp only [wellFormed, Bool.and_eq_true] at hw
      simpa [NoNaN] using wellFormedFields_noNaN fs hw.2
  | .tuple ss => by
      intro hw; simp only [wellFormed, Bool.and_eq_true] at hw
      simpa [NoNaN] using wellFormedList_noNaN ss hw.2
theorem wellFormedFields_noNaN : ∀ (fs : List (String × Space α)),
    wellFormedFields fs = true → NoNaNFields fs
  | [] => by simp [NoNaNFields]
  | (_, s) :: fs => by
      intro hw; simp only [wellFormedFields, Bool.and_eq_true] at hw
      exact ⟨wellFormed_noNaN s hw.1, wellFormedFields_noNaN fs hw.2⟩
theorem wellFormedList_noNaN : ∀ (ss : List (Space α)), wellFormedList ss = true → NoNaNList ss
  | [] => by simp [NoNaNList]
  | s :: ss => by
      intro hw; simp only [wellFormedList, Bool.and_eq_true] at hw
      exact ⟨wellFormed_noNaN s hw.1, wellFormedList_noNaN ss hw.2⟩
end

theorem allEqv_iff : ∀ (a b : List (Num α)), noNaNList a →
    (allEqv a b = true ↔ a.map Num.canon = b.map Num.canon)
  | [], [] => by simp [allEqv]
  | [], _ :: _ => by simp [allEqv]
  | _ :: _, [] => by simp [allEqv]
  | x :: xs, y :: ys => by
      intro h
      simp only [noNaNList] at h
      simp [allEqv, eqv_iff_canon, allEqv_iff xs ys h.2, h.1]

mutual
/-- **Equality holds exactly between spaces of equal structure and parameters**: `s == t` iff the
    two spaces coincide once the sign of zero bounds is forgotten (`-0.0` and `0.0` are the same
    number).  Needs: no NaN bound in `s` (a NaN bound makes a Box unequal to itself). -/
theorem beq_iff_eq : ∀ (s t : Space α), NoNaN s → (beq s t = true ↔ canonSpace s = canonSpace t)
  | .box sh lo hi, t => by
      intro hn
      simp only [NoNaN] at hn
      cases t <;> simp [beq, canonSpace, allEqv_iff _ _ hn.1, allEqv_iff _ _ hn.2, and_assoc]
  | .discrete n, t => by intro _; cases t <;> simp [beq, canonSpace]
  | .multiBinary sh, t => by intro _; cases t <;> simp [beq, canonSpace]
  | .multiDiscrete nv, t => by intro _; cases t <;> simp [beq, canonSpace]
  | .dict fs, t => by
      intro hn
      simp only [NoNaN] at hn
      cases t <;> simp [beq, canonSpace, beqFields_iff_eq fs _ hn]
  | .tuple ss, t => by
      intro hn
      simp only [NoNaN] at hn
      cases t <;> simp [beq, canonSpace, beqList_iff_eq ss _ hn]
theorem beqFields_iff_eq : ∀ (fs gs : List (String × Space α)), NoNaNFields fs →
    (beqFields fs gs = true ↔ canonSpaceFields fs = canonSpaceFields gs)
  | [], [] => by simp [beqFields]
  | [], _ :: _ => by simp [beqFields, canonSpaceFields]
  | _ :: _, [] => by simp [beqFields, canonSpaceFields]
  | (k, s) :: fs, (k', t) :: gs => by
      intro hn
      simp only [NoNaNFields] at hn
      simp [beqFields, canonSpaceFields, beq_iff_eq s t hn.1, beqFields_iff_eq fs gs hn.2, and_assoc]
theorem beqList_iff_eq : ∀ (ss ts : List (Space α)), NoNaNList ss →
    (beqList ss ts = true ↔ canonSpaceList ss = canonSpaceList ts)
  | [], [] => by simp [beqList]
  | [], _ :: _ => by simp [beqList, canonSpaceList]
  | _ :: _, [] => by simp [beqList, canonSpaceList]
  | s :: ss, t :: ts => by
      intro hn
      simp only [NoNaNList] at hn
      simp [beqList, canonSpaceList, beq_iff_eq s t hn.1, beqList_iff_eq ss ts hn.2]
end

theorem canon_canon (x : Num α) : x.canon.canon = x.canon := by cases x <;> simp [Num.canon]

mutual
theorem hashKey_canonSpace : ∀ (s : Space α), hashKey (canonSpace s) = hashKey s
  | .box sh lo hi => by simp [canonSpace, hashKey, canon_canon]
  | .discrete _ => rfl
  | .multiBinary _ => rfl
  | .multiDiscrete _ => rfl
  | .dict fs => by simp [canonSpace, hashKey, hashKeyFields_canonSpace fs]
  | .tuple ss => by simp [canonSpace, hashKey, hashKeyList_canonSpace ss]
theorem hashKeyFields_canonSpace : ∀ (fs : List (String × Space α)),
    hashKeyFields (canonSpaceFields fs) = hashKeyFields fs
  | [] => rfl
  | (k, s) :: fs => by
      simp [canonSpaceFields, hashKeyFields, hashKey_canonSpace s, hashKeyFields_canonSpace fs]
theorem hashKeyList_canonSpace : ∀ (ss : List (Space α)),
    hashKeyList (canonSpaceList ss) = hashKeyList ss
  | [] => rfl
  | s :: ss => by
      simp [canonSpaceList, hashKeyList, hashKey_canonSpace s, hashKeyList_canonSpace ss]
end

/-- **Equality agrees with hashing**: equal spaces hash the same object. -/
theorem eq_hash (s t : Space α) (hn : NoNaN s) (h : beq s t = true) : hashKey s = hashKey t := by
  rw [← hashKey_canonSpace s, ← hashKey_canonSpace t, (beq_iff_eq s t hn).1 h]

theorem beq_refl (s : Space α) (hn : NoNaN s) : beq s s = true := (beq_iff_eq s s hn).2 rfl

/-- the same two facts for well-formed spaces -/
theorem beq_iff_eq_wf (s t : Space α) (hw : wellFormed s = true) :
    beq s t = true ↔ canonSpace s = canonSpace t := beq_iff_eq s t (wellFormed_noNaN s hw)

theorem eq_hash_wf (s t : Space α) (hw : wellFormed s = true) (h : beq s t = true) :
    hashKey s = hashKey t := eq_hash s t (wellFormed_noNaN s hw) h

/-- Φ (`phiEq`) holds of the model's own answers -/
theorem phi_eq (s t : Space α) (hn : NoNaN s) (hashEq : Bool)
    (hh : hashKey s = hashKey t → hashEq = true) : phiEq s t (beq s t) hashEq = true := by
  simp only [phiEq, beq_self_eq_true, Bool.true_and, Bool.or_eq_true, Bool.not_eq_true']
  cases hb : beq s t with
  | false => simp
  | true => right; exact hh (eq_hash s t hn hb)


/-! ## Round trip through Gymnasium -/

theorem ofGymFields_insertKey (k : String) (g : GSpace α) (s : Space α) (hs : ofGym g = some s) :
    ∀ (gs : List (String × GSpace α)) (fs : List (String × Space α)),
    ofGymFields gs = some fs → ofGymFields (insertKey k g gs) = some (insertKey k s fs)
  | [], fs => by
      intro h; simp only [ofGymFields, Option.some.injEq] at h; subst h
      simp [insertKey, ofGymFields, hs]
  | (k', g') :: gs, fs => by
      intro h
      simp only [ofGymFields] at h
      cases hg : ofGym g' with
      | none => simp [hg] at h
      | some s' =>
          cases hr : ofGymFields gs with
          | none => simp [hg, hr] at h
          | some fs' =>
              simp only [hg, hr, Option.some.injEq] at h
              subst h
              simp only [insertKey]
              split_ifs
              · simp [ofGymFields, hg, ofGymFields_insertKey k g s hs gs fs' hr]
              · simp [ofGymFields, hg, hr, hs]

theorem ofGymFields_sort : ∀ (gs : List (String × GSpace α)) (fs : List (String × Space α)),
    ofGymFields gs = some fs → ofGymFields (sortKeysL gs) = some (sortKeysL fs)
  | [], fs => by
      intro h; simp only [ofGymFields, Option.some.injEq] at h; subst h; simp [sortKeysL, ofGymFields]
  | (k, g) :: gs, fs => by
      intro h
      simp only [ofGymFields] at h
      cases hg : ofGym g with
      | none => simp [hg] at h
      | some s =>
          cases hr : ofGymFields gs with
          | none => simp [hg, hr] at h
          | some fs' =>
              simp only [hg, hr, Option.some.injEq] at h
              subst h
              simp only [sortKeysL]
              exact ofGymFields_insertKey k g s hg _ _ (ofGymFields_sort gs fs' hr)

mutual
/-- **The round trip through Gymnasium returns the same space with every Dict's keys in
    Gymnasium's (sorted) order** — and never fails. -/
theorem gym_roundtrip : ∀ (s : Space α), ofGym (toGym s) = some (sortKeys s)
  | .box sh lo hi => by simp [toGym, ofGym, sortKeys]
  | .discrete n => by simp [toGym, ofGym, sortKeys]
  | .multiBinary sh => by
      match sh with
      | [] => simp [toGym, ofGym, sortKeys]
      | [n] => simp [toGym, ofGym, sortKeys]
      | _ :: _ :: _ => simp [toGym, ofGym, sortKeys]
  | .multiDiscrete nv => by simp [toGym, ofGym, sortKeys]
  | .dict fs => by
      simp only [toGym, ofGym, sortKeys]
      rw [ofGymFields_sort _ _ (gym_roundtripFields fs)]
  | .tuple ss => by
      simp only [toGym, ofGym, sortKeys]
      rw [gym_roundtripList ss]
theorem gym_roundtripFields : ∀ (fs : List (String × Space α)),
    ofGymFields (toGymFields fs) = some (sortKeysFields fs)
  | [] => by simp [toGymFields, ofGymFields, sortKeysFields]
  | (k, s) :: fs => by
      simp [toGymFields, ofGymFields, sortKeysFields, gym_roundtrip s, gym_roundtripFields fs]
theorem gym_roundtripList : ∀ (ss : List (Space α)),
    ofGymList (toGymList ss) = some (sortKeysList ss)
  | [] => by simp [toGymList, ofGymList, sortKeysList]
  | s :: ss => by
      simp [toGymList, ofGymList, sortKeysList, gym_roundtrip s, gym_roundtripList ss]
end

/-! ### keys already in Gymnasium's order: the round trip is the identity -/

/-- keys listed in non-decreasing order -/
def sortedKeys {β : Type} : List (String × β) → Prop
  | [] => True
  | [_] => True
  | (k, _) :: (k', v') :: rest => ¬ k' < k ∧ sortedKeys ((k', v') :: rest)

theorem sortKeysL_of_sorted {β : Type} : ∀ (l : List (String × β)), sortedKeys l → sortKeysL l = l
  | [] => by simp [sortKeysL]
  | [(k, v)] => by simp [sortKeysL, insertKey]
  | (k, v) :: (k', v') :: rest => by
      intro h
      simp only [sortedKeys] at h
      have ih := sortKeysL_of_sorted ((k', v') :: rest) h.2
      rw [sortKeysL, ih, insertKey, if_neg h.1]

mutual
/-- every Dict inside the space lists its keys in Gymnasium's order -/
def KeysSorted : Space α → Prop
  | .dict fs => sortedKeys fs ∧ KeysSortedFields fs
  | .tuple ss => KeysSortedList ss
  | _ => True
def KeysSortedFields : List (String × Space α) → Prop
  | [] => True
  | (_, s) :: fs => KeysSorted s ∧ KeysSortedFields fs
def KeysSortedList : List (Space α) → Prop
  | [] => True
  | s :: ss => KeysSorted s ∧ KeysSortedList ss
end

mutual
theorem sortKeys_of_sorted : ∀ (s : Space α), KeysSorted s → sortKeys s = s
  | .box _ _ _ => by simp [sortKeys]
  | .discrete _ => by simp [sortKeys]
  | .multiBinary _ => by simp [sortKeys]
  | .multiDiscrete _ => by simp [sortKeys]
  | .dict fs => by
      intro h
      simp only [KeysSorted] at h
      simp only [sortKeys, sortKeysFields_of_sorted fs h.2, sortKeysL_of_sorted fs h.1]
  | .tuple ss => by
      intro h
      simp only [KeysSorted] at h
      simp only [sortKeys, sortKeysList_of_sorted ss h]
theorem sortKeysFields_of_sorted : ∀ (fs : List (String × Space α)),
    KeysSortedFields fs → sortKeysFields fs = fs
  | [] => by simp [sortKeysFields]
  | (k, s) :: fs => by
      intro h
      simp only [KeysSortedFields] at h
      simp only [sortKeysFields, sortKeys_of_sorted s h.1, sortKeysFields_of_sorted fs h.2]
theorem sortKeysList_of_sorted : ∀ (ss : List (Space α)), KeysSortedList ss → sortKeysList ss = ss
  | [] => by simp [sortKeysList]
  | s :: ss => by
      intro h
      simp only [KeysSortedList] at h
      simp only [sortKeysList, sortKeys_of_sorted s h.1, sortKeysList_of_sorted ss h.2]
end

/-- **Equality survives the round trip** when the Dict keys are compared in Gymnasium's order:
    a space without NaN bounds whose keys are in that order comes back `==` to itself. -/
theorem gym_roundtrip_eq (s : Space α) (hn : NoNaN s) (hk : KeysSorted s) :
    ∃ back, ofGym (toGym s) = some back ∧ beq back s = true ∧ phiGym s back = true := by
  refine ⟨sortKeys s, gym_roundtrip s, ?_, ?_⟩
  · rw [sortKeys_of_sorted s hk]; exact beq_refl s hn
  · simp only [phiGym]; rw [sortKeys_of_sorted s hk]; exact beq_refl s hn


/-! ### keys in any order: the space that comes back equals the key-sorted original -/

theorem noNaNFields_insertKey (k : String) (s : Space α) (hs : NoNaN s) :
    ∀ (fs : List (String × Space α)), NoNaNFields fs → NoNaNFields (insertKey k s fs)
  | [] => by intro _; simp [insertKey, NoNaNFields, hs]
  | (k', s') :: fs => by
      intro h
      simp only [NoNaNFields] at h
      simp only [insertKey]
      split_ifs
      · exact ⟨h.1, noNaNFields_insertKey k s hs fs h.2⟩
      · exact ⟨hs, h.1, h.2⟩

theorem noNaNFields_sort : ∀ (fs : List (String × Space α)), NoNaNFields fs →
    NoNaNFields (sortKeysL fs)
  | [] => by simp [sortKeysL, NoNaNFields]
  | (k, s) :: fs => by
      intro h
      simp only [NoNaNFields] at h
      exact noNaNFields_insertKey k s h.1 _ (noNaNFields_sort fs h.2)

mutual
theorem noNaN_sortKeys : ∀ (s : Space α), NoNaN s → NoNaN (sortKeys s)
  | .box _ _ _ => by simp [sortKeys]
  | .discrete _ => by simp [sortKeys]
  | .multiBinary _ => by simp [sortKeys]
  | .multiDiscrete _ => by simp [sortKeys]
  | .dict fs => by
      intro h
      simp only [NoNaN] at h
      simp only [sortKeys, NoNaN]
      exact noNaNFields_sort _ (noNaNFields_sortKeys fs h)
  | .tuple ss => by
      intro h
      simp only [NoNaN] at h
      simp only [sortKeys, NoNaN]
      exact noNaNList_sortKeys ss h
theorem noNaNFields_sortKeys : ∀ (fs : List (String × Space α)), NoNaNFields fs →
    NoNaNFields (sortKeysFields fs)
  | [] => by simp [sortKeysFields, NoNaNFields]
  | (_, s) :: fs => by
      intro h
      simp only [NoNaNFields] at h
      exact ⟨noNaN_sortKeys s h.1, noNaNFields_sortKeys fs h.2⟩
theorem noNaNList_sortKeys : ∀ (ss : List (Space α)), NoNaNList ss → NoNaNList (sortKeysList ss)
  | [] => by simp [sortKeysList, NoNaNList]
  | s :: ss => by
      intro h
      simp only [NoNaNList] at h
      exact ⟨noNaN_sortKeys s h.1, noNaNList_sortKeys ss h.2⟩
end

/-- Φ (`phiGym`) holds of the model's round trip for every space without NaN bounds, whatever
    the order of its keys. -/
theorem phi_gym (s : Space α) (hn : NoNaN s) :
    ∃ back, ofGym (toGym s) = some back ∧ phiGym s back = true :=
  ⟨sortKeys s, gym_roundtrip s, beq_refl _ (noNaN_sortKeys s hn)⟩

/-! ## Integrality through `floor` (what `x == jnp.floor(x)` computes on finite numbers) -/

section Floor
variable [FloorRing α]

/-- `x == floor x` -/
def floorIsInt (x : α) : Bool := decide ((⌊x⌋ : α) = x)

theorem floorIsInt_natCast (k : ℕ) : floorIsInt (k : α) = true := by simp [floorIsInt]

/-- with `floor`-integrality, the index entries are exactly the natural numbers below `n` -/
theorem isIndex_iff_nat (x : Num α) (n : ℕ) :
    IsIndex floorIsInt x n ↔ ∃ k : ℕ, k < n ∧ x.fin? = some (k : α) := by
  constructor
  · rintro ⟨y, hy, hi, h0, hn⟩
    simp only [floorIsInt, decide_eq_true_eq] at hi
    obtain ⟨k, hk⟩ := Int.eq_ofNat_of_zero_le (Int.floor_nonneg.2 h0)
    have hyk : y = (k : α) := by rw [← hi, hk]; simp
    refine ⟨k, ?_, by rw [hy, hyk]⟩
    rw [hyk] at hn; exact_mod_cast hn
  · rintro ⟨k, hk, hx⟩
    exact ⟨k, hx, floorIsInt_natCast k, Nat.cast_nonneg k, by exact_mod_cast hk⟩

/-- `Discrete(n).contains(x)` is true exactly for scalars denoting one of `0, …, n-1` -/
theorem discrete_contains_iff (n : ℕ) (v : Val α) :
    contains floorIsInt (.discrete n) v = true ↔
      ∃ x, tryCast v = some ([], [x]) ∧ ∃ k : ℕ, k < n ∧ x.fin? = some (k : α) := by
  rw [contains_iff_mem]; simp only [Mem, isIndex_iff_nat]

/-- samples and canonical elements are members, with nothing assumed about `isInt` -/
theorem sample_mem_floor (s : Space α) (d : Draw α) (hw : wellFormed s = true) (hd : DrawOk s d) :
    contains floorIsInt s (sample s d) = true :=
  (contains_iff_mem _ _ _).2 (sample_mem _ floorIsInt_natCast s d hw hd)

theorem canonical_mem_floor (s : Space α) (hw : wellFormed s = true) :
    contains floorIsInt s (canonical s) = true :=
  (contains_iff_mem _ _ _).2 (canonical_mem _ (by simpa using floorIsInt_natCast (α := α) 0) s hw)

end Floor

/-! ## The pre-repair behaviour violates the property (concrete witnesses over ℚ) -/

/-- integrality on ℚ -/
def ratIsInt (x : ℚ) : Bool := x.den == 1

theorem ratIsInt_natCast (k : ℕ) : ratIsInt (k : ℚ) = true := by simp [ratIsInt]

/-- old `MultiDiscrete.contains` accepted `[-1, 0]` for `MultiDiscrete((3, 4))` -/
theorem legacy_multiDiscrete_accepts_negative :
    ∃ v : Val ℚ, legacyMultiDiscreteContains ratIsInt [3, 4] v = true ∧
      ¬ Mem ratIsInt (.multiDiscrete [3, 4]) v := by
  refine ⟨.arr [2] [.fin (-1), .fin 0], by decide, ?_⟩
  rw [← contains_iff_mem]; decide

/-- old `MultiBinary((2,3)).contains` answered with an array of shape `(3,)` -/
theorem legacy_multiBinary_not_scalar :
    ∃ v : Val ℚ, Mem ratIsInt (.multiBinary [2, 3]) v ∧
      ∀ b, legacyMultiBinaryContainsR [2, 3] v ≠ .scalar b := by
  refine ⟨.arr [2, 3] [.fin 0, .fin 1, .fin 0, .fin 1, .fin 1, .fin 0], ?_, ?_⟩
  · rw [← contains_iff_mem]; decide
  · intro b; cases b <;> decide

/-- old `try_cast` let `ValueError` escape: the answer was no boolean at all -/
theorem legacy_tryCast_raises (answer b : Bool) : legacyLeafContainsR true answer ≠ .scalar b := by
  simp [legacyLeafContainsR]

/-- old `Tuple.__eq__`: a proper prefix compared equal -/
theorem legacy_tuple_eq_prefix :
    ∃ ss ts : List (Space ℚ), legacyBeqList beq ss ts = true ∧
      canonSpace (.tuple ss) ≠ canonSpace (.tuple ts) ∧ beq (.tuple ss) (.tuple ts) = false := by
  refine ⟨[.discrete 3], [.discrete 3, .discrete 2], by decide, ?_, by decide⟩
  simp [canonSpace, canonSpaceList]

/-- old `Dict.__eq__`: a Dict space was not even equal to itself; old `Dict.__hash__` raised -/
theorem legacy_dict_eq_irreflexive :
    ∃ fs : List (String × Space ℚ), legacyDictBeq fs fs = false ∧
      beq (.dict fs) (.dict fs) = true ∧ legacyDictHash fs = none :=
  ⟨[("a", .discrete 2)], rfl, by decide, rfl⟩

/-- old `Box.__hash__`: `Box(-0.0, 1) == Box(0.0, 1)` but the hashed bytes differ -/
theorem legacy_box_hash_disagrees :
    beq (.box [] [.nzero] [.fin (1 : ℚ)]) (.box [] [.fin 0] [.fin 1]) = true ∧
      legacyBoxHashKey [] [.nzero] [.fin (1 : ℚ)] ≠ legacyBoxHashKey [] [.fin 0] [.fin 1] ∧
      hashKey (.box [] [.nzero] [.fin (1 : ℚ)]) = hashKey (.box [] [.fin 0] [.fin 1]) := by
  refine ⟨by decide, by simp [legacyBoxHashKey], by simp [hashKey, Num.canon]⟩

/-- old `Box.canonical`: NaN for an unbounded entry, which is not a member -/
theorem legacy_box_canonical_not_member :
    legacyCanonicalEntry (.ninf : Num ℚ) .pinf = .nan ∧
      ¬ Mem ratIsInt (.box [1] [.ninf] [.pinf]) (.arr [1] [legacyCanonicalEntry (.ninf : Num ℚ) .pinf]) ∧
      Mem ratIsInt (.box [1] [.ninf] [.pinf]) (canonical (.box [1] [(.ninf : Num ℚ)] [.pinf])) := by
  refine ⟨rfl, ?_, ?_⟩
  · rw [← contains_iff_mem]; decide
  · rw [← contains_iff_mem]; decide

/-- old `Dict.flatten_sample`: raised for the Dict space without keys (whose `flat_size` is 0) -/
theorem legacy_dict_flatten_empty :
    legacyDictFlattenLength ([] : List (String × Space ℚ)) = none ∧
      (flatten (.dict ([] : List (String × Space ℚ))) (.odict [])).length = flatSize (.dict ([] : List (String × Space ℚ))) :=
  ⟨rfl, rfl⟩

/-! ## Non-vacuity: a nested well-formed space, a draw in range, its sample and canonical element -/

/-- `Tuple((Discrete(3), Dict({"b": Box([0,-inf],[1,inf]), "a": MultiBinary(2)}), MultiDiscrete((2,5))))` -/
def exSpace : Space ℚ :=
  .tuple [.discrete 3,
          .dict [("b", .box [2] [.fin 0, .ninf] [.fin 1, .pinf]), ("a", .multiBinary [2])],
          .multiDiscrete [2, 5]]

def exDraw : Draw ℚ :=
  .node [.index 2, .node [.box [0, 0] [0, 3] [0, 0], .bits [true, false]], .indices [1, 4]]

example : wellFormed exSpace = true := by decide

example : DrawOk exSpace exDraw := by
  simp [exSpace, exDraw, DrawOk, DrawOkList, DrawOkFields, boxDrawsOk, All2, prod]

example : Mem ratIsInt exSpace (sample exSpace exDraw) :=
  sample_mem ratIsInt ratIsInt_natCast exSpace exDraw (by decide)
    (by simp [exSpace, exDraw, DrawOk, DrawOkList, DrawOkFields, boxDrawsOk, All2, prod])

example : contains ratIsInt exSpace (canonical exSpace) = true :=
  (contains_iff_mem _ _ _).2 (canonical_mem ratIsInt (by decide) exSpace (by decide))
example : (flatten exSpace (canonical exSpace)).length = 7 ∧ flatSize exSpace = 7 := by decide
example : NoNaN exSpace := wellFormed_noNaN exSpace (by decide)
/-- the round trip sorts the keys `b, a` into `a, b` -/
example : ofGym (toGym exSpace) = some (.tuple [.discrete 3,
    .dict [("a", .multiBinary [2]), ("b", .box [2] [.fin 0, .ninf] [.fin 1, .pinf])],
    .multiDiscrete [2, 5]]) := by
  rw [gym_roundtrip]; rfl
/-- a permuted `OrderedDict`, given as lists, is a member; a plain dict / a negative index is not -/
example : contains ratIsInt (.dict [("b", .discrete 2), ("a", .multiDiscrete [2, 2])])
    (.odict [("a", .list [.arr [] [.fin 1], .arr [] [.nzero]]), ("b", .arr [] [.fin 1])]) = true := by decide
example : contains ratIsInt (.dict [("b", .discrete 2)]) (.pdict [("b", .arr [] [.fin (1 : ℚ)])]) = false := by decide
example : contains ratIsInt (.discrete 2) (.arr [] [.fin (-1 : ℚ)]) = false := by decide
example : contains ratIsInt (.discrete 2) (.list [.arr [] [.fin (1 : ℚ)], .list []]) = false := by decide

/-! ### pre-repair `Discrete.contains` with narrow integer candidates

  `0 <= x < self.n` compared a `bits`-wide unsigned (or signed) candidate `x` with the Python int `n`,
  which JAX's weak typing cast to the candidate's dtype, i.e. reduced modulo `2^bits` (signed: into
  `[-2^(bits-1), 2^(bits-1))`).  Membership is about the value: the repaired code compares with `n` as a
  default-integer array. -/

/-- old upper-bound test for an unsigned `bits`-wide candidate -/
def legacyDiscreteContainsU (bits n x : Nat) : Bool := decide (x < n % 2 ^ bits)

/-- old upper-bound test for a signed `bits`-wide candidate (`n` wrapped into the signed range) -/
def legacyDiscreteContainsS (bits : Nat) (n : Nat) (x : Int) : Bool :=
  let w : Int := ((n : Int) + 2 ^ (bits - 1)) % 2 ^ bits - 2 ^ (bits - 1)
  decide (0 ≤ x ∧ x < w)

/-- `Discrete(300)` rejected the member 200 given as `uint8`, `Discrete(200)` the member 100 given as
    `int8`; the model (`contains`, value-based) accepts both -/
theorem legacy_discrete_rejects_narrow_members :
    legacyDiscreteContainsU 8 300 200 = false ∧ legacyDiscreteContainsS 8 200 100 = false ∧
    contains ratIsInt (.discrete 300) (.arr [] [.fin (200 : ℚ)]) = true ∧
    contains ratIsInt (.discrete 200) (.arr [] [.fin (100 : ℚ)]) = true := by decide

/-- for sizes that fit the candidate's dtype the old test was right -/
theorem legacy_discrete_ok_when_n_fits (bits n x : Nat) (hn : n < 2 ^ bits) :
    legacyDiscreteContainsU bits n x = decide (x < n) := by
  simp [legacyDiscreteContainsU, Nat.mod_eq_of_lt hn]

end Lerax.C14

/-! ## The defect repaired by /repo cd1fcd0 (integers wider than the default integer type) -/
namespace Lerax.C14
/-- pre-repair conversion of a 64-bit integer without x64: truncation to 32-bit two's complement -/
def wrap32 (v : Int) : Int := (v + 2147483648) % 4294967296 - 2147483648
/-- pre-repair `Discrete(n).contains` on a 64-bit integer candidate: the test ran on the wrapped value -/
def legacyDiscreteContainsWide (n : Nat) (v : Int) : Bool := decide (0 ≤ wrap32 v) && decide (wrap32 v < (n : Int))

/-- every value that differs from a member by a multiple of 2^32 was accepted (e.g. 2^32 + 1 by
    `Discrete(5)`), although it is not one of 0, …, n-1 -/
theorem legacy_discrete_accepts_wrapped (n : Nat) (k : Nat) (m : Int) (hk : k < n) (hn : n ≤ 2147483648) :
    legacyDiscreteContainsWide n (m * 4294967296 + k) = true := by
  have hw : wrap32 (m * 4294967296 + k) = k := by
    unfold wrap32
    omega
  simp [legacyDiscreteContainsWide, hw]
  omega

theorem legacy_discrete_accepts_2pow32_plus_1 : legacyDiscreteContainsWide 5 (2 ^ 32 + 1) = true := by decide
end Lerax.C14
