/-
  Cross-property composition for the off-policy algorithms (C05 ∘ C06 ∘ C07):

  * `sampled_row_was_inserted` (C06): a jointly sampled valid index of stacked per-environment
    buffers holds a transition that was inserted into *that environment's* buffer.
  * `produced_row_origin` (C05): every transition produced by a collection is the `stepRow` of some
    environment state / policy state / key.
  * `stepRow_td_target` (C05 ∘ C07): the regression target computed from a stored transition
    bootstraps exactly when the real environment did not terminate on that step — it is
    `r + γ·V'` on running and on truncated-only steps and `r` on every terminating step, where `r`
    is the reward of the executed (clipped) action.
  * `sampled_targets_respect_termination` (C05 ∘ C06 ∘ C07): the three chained — for ANY
    environment, policy, capacity, number of environments, per-environment collection histories
    (any lengths, any number of ring wrap-arounds) and ANY batch of distinct valid indices, each
    sampled transition is a transition that really happened and its TD target has the form above.
-/
import LeraxProofs.C05
import LeraxProofs.C06
import LeraxProofs.C07

namespace Lerax.PipelineOff
open Lerax.Env Lerax.Replay Lerax.OffPolicy Lerax.Td

set_option linter.unusedSectionVars false

section replay
variable {ρ : Type}

theorem buffers_slots_len (C : Nat) (hC : 0 < C) (histories : List (List ρ)) :
    ∀ xs ∈ (histories.map (fun rows => rows.foldl add (empty C))).map (·.slots), xs.length = C := by
  intro xs hxs
  simp only [List.mem_map] at hxs
  obtain ⟨b, ⟨rows, _, rfl⟩, rfl⟩ := hxs
  exact (Lerax.C06.inv_foldl C hC rows).len

theorem flatMask_length (C : Nat) (hC : 0 < C) (histories : List (List ρ)) :
    (flatMask (histories.map (fun rows => rows.foldl add (empty C)))).length = histories.length * C := by
  unfold flatMask
  rw [List.length_flatten]
  simp only [List.map_map]
  have : ∀ rows ∈ histories,
      (List.length ∘ validMask ∘ fun rows => List.foldl add (empty C) rows) rows = C := by
    intro rows _
    simp [validMask, (Lerax.C06.inv_foldl C hC rows).cap]
  rw [List.map_congr_left this]
  simp

/-- **C06, strengthened.**  A valid flat index `i` of the stacked buffers holds a transition that was
    inserted into environment `i / C`'s own buffer. -/
theorem sampled_row_was_inserted (C : Nat) (hC : 0 < C) (histories : List (List ρ)) (i : Nat)
    (hv : (flatMask (histories.map (fun rows => rows.foldl add (empty C))))[i]? = some true) :
    ∃ (he : i / C < histories.length) (r : ρ),
      (flatSlots (histories.map (fun rows => rows.foldl add (empty C)))).getD i none = some r ∧
      r ∈ histories[i / C] := by
  have hlt : i < (flatMask (histories.map (fun rows => rows.foldl add (empty C)))).length := by
    by_contra hcon
    rw [List.getElem?_eq_none (by omega)] at hv
    simp at hv
  rw [flatMask_length C hC] at hlt
  have he : i / C < histories.length := (Nat.div_lt_iff_lt_mul hC).mpr hlt
  have hj : i % C < C := Nat.mod_lt _ hC
  have hij : i / C * C + i % C = i := by rw [Nat.mul_comm]; exact Nat.div_add_mod i C
  have h1 := (Lerax.C06.flat_valid C hC histories (i / C) (i % C) he hj).1
  simp only [hij] at h1
  obtain ⟨r, hr⟩ := h1.mp hv
  refine ⟨he, r, by rw [List.getD_eq_getElem?_getD, hr]; rfl, ?_⟩
  -- the flat slot is slot `i % C` of environment `i / C`'s buffer
  have hflat := Lerax.C06.flatten_uniform_getElem? C _ (buffers_slots_len C hC histories) (i / C) (i % C) hj
  unfold flatSlots at hr
  rw [hij] at hflat
  rw [hflat] at hr
  simp only [List.getElem?_map, List.getElem?_eq_getElem he, Option.map_some, Option.bind_some] at hr
  exact Lerax.C06.slot_atomic C histories[i / C] (i % C) r hr

end replay

section offpolicy
variable {S A O K PS α : Type} [Keys K]
variable (E : Env S A O α K) (clip : A → A) (P : Policy PS O A K)

/-- **C05.**  Every produced transition is the `stepRow` of some state, policy state and key. -/
theorem produced_row_origin (env : S) (ps : PS) (keys : List K) :
    ∀ row ∈ producedRows E clip P env ps keys,
      ∃ (env' : S) (ps' : PS) (k : K), k ∈ keys ∧ row = (stepRow E clip P env' ps' k).2.2 := by
  induction keys generalizing env ps with
  | nil => intro row h; simp [producedRows] at h
  | cons k ks ih =>
      intro row h
      simp only [producedRows, List.mem_cons] at h
      rcases h with h | h
      · exact ⟨env, ps, k, by simp, h⟩
      · obtain ⟨env', ps', k', hk', hrow⟩ := ih _ _ row h
        exact ⟨env', ps', k', by simp [hk'], hrow⟩

end offpolicy

section td
variable {S A O K PS α : Type} [Keys K] [Field α] [LinearOrder α] [IsStrictOrderedRing α]
variable (E : Env S A O α K) (clip : A → A) (P : Policy PS O A K)

/-- **C05 ∘ C07.**  The TD target built from the transition that `step` stores: the reward of the
    executed (clipped) action, plus `γ·V'` unless the environment *terminated* on that step —
    truncation alone (time limit) keeps the bootstrap, termination drops it even when the step was
    truncated as well. -/
theorem stepRow_td_target (γ v : α) (env : S) (ps : PS) (key : K) :
    let row := (stepRow E clip P env ps key).2.2
    let a := (P.act ps (E.observation env (sub key 2)) (sub key 0)).2
    let next := E.transition env (clip a) (sub key 1)
    tdTarget γ row.reward v row.done row.timeout =
      E.reward env (clip a) next (sub key 3) +
        (if E.terminal next (sub key 4) then 0 else γ * v) := by
  simp only [stepRow, tdTarget, notTerminal, ofBool]
  by_cases ht : E.terminal (E.transition env (clip (P.act ps (E.observation env (sub key 2)) (sub key 0)).2) (sub key 1)) (sub key 4) = true <;>
  by_cases hr : E.truncate (E.transition env (clip (P.act ps (E.observation env (sub key 2)) (sub key 0)).2) (sub key 1)) = true <;>
  simp [ht, hr]

/-- **C05 ∘ C06 ∘ C07.**  Collect any histories in any number of environments (per-environment
    buffers of capacity `C`, any number of wrap-arounds), sample any batch of distinct valid flat
    indices: every sampled entry is a transition that really happened in the environment whose
    buffer it came from, and its TD target is `r(executed action) + γ·V'` unless that step
    terminated, in which case it is `r` alone. -/
theorem sampled_targets_respect_termination (C : Nat) (hC : 0 < C)
    (starts : List (S × PS × List K)) (idx : List Nat) (γ v : α)
    (hvalid : ∀ i ∈ idx,
      (flatMask ((starts.map (fun s => producedRows E clip P s.1 s.2.1 s.2.2)).map
        (fun rows => rows.foldl add (empty C))))[i]? = some true) :
    ∀ x ∈ take (flatSlots ((starts.map (fun s => producedRows E clip P s.1 s.2.1 s.2.2)).map
        (fun rows => rows.foldl add (empty C)))) idx,
      ∃ (row : Row PS O A α) (env : S) (ps : PS) (key : K),
        x = some row ∧ row = (stepRow E clip P env ps key).2.2 ∧
        tdTarget γ row.reward v row.done row.timeout =
          E.reward env (clip (P.act ps (E.observation env (sub key 2)) (sub key 0)).2)
              (E.transition env (clip (P.act ps (E.observation env (sub key 2)) (sub key 0)).2) (sub key 1))
              (sub key 3) +
            (if E.terminal
                (E.transition env (clip (P.act ps (E.observation env (sub key 2)) (sub key 0)).2) (sub key 1))
                (sub key 4) then 0 else γ * v) := by
  intro x hx
  simp only [take, List.mem_map] at hx
  obtain ⟨i, hi, rfl⟩ := hx
  obtain ⟨he, r, hr, hmem⟩ := sampled_row_was_inserted C hC _ i (hvalid i hi)
  simp only [List.getElem_map] at hmem
  obtain ⟨env, ps, key, _, hrow⟩ := produced_row_origin E clip P _ _ _ r hmem
  refine ⟨r, env, ps, key, hr, hrow, ?_⟩
  rw [hrow]
  exact stepRow_td_target E clip P γ v env ps key

end td

/-! ### non-vacuity: a concrete two-environment collection with a wrapped buffer -/

open Lerax.C05 in
example :
    let hist := [producedRows toyEnv (fun a => min a 6) toyPolicy 0 0 [1, 2, 3, 4, 5],
                 producedRows toyEnv (fun a => min a 6) toyPolicy 0 0 [7]]
    let bs := hist.map (fun rows => rows.foldl add (empty 2))
    flatMask bs = [true, true, true, false] ∧
    ((take (flatSlots bs) [1, 2]).map (fun x => x.map (fun r => (r.done, r.timeout)))) =
      [some (true, true), some (false, false)] := by decide

end Lerax.PipelineOff
