import LeraxProofs.C01
import LeraxProofs.C03
import LeraxProofs.C13
import LeraxProofs.C06
import LeraxProofs.C09
import LeraxProofs.C04
import LeraxProofs.C05
import LeraxProofs.C07
