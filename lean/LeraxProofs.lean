import LeraxProofs.C01
import LeraxProofs.C03
import LeraxProofs.C13
