import LeraxProofs.C03
