#!/venv/bin/python
"""Regenerate the generated tables of DESIGN.md (between the GENERATED markers) from
registry.d/*.json, seeded/*/meta.json and seeded/RESULTS.json."""
import json, os, re
V = os.path.dirname(os.path.abspath(__file__))
reg = {f[:-5]: json.load(open(os.path.join(V, "registry.d", f))) for f in sorted(os.listdir(os.path.join(V, "registry.d")))}
out = ["### 10.4 Theorems registered per property (generated from registry.d)\n",
       "| id | level | x64 modes | #theorems | modules | theorem names |", "|---|---|---|---|---|---|"]
for pid, r in reg.items():
    names = ", ".join("`" + t.split(".")[-1] + "`" for t in r["theorems"])
    out.append(f"| {pid} | {r['level']} | {r.get('x64_modes', [0, 1])} | {len(r['theorems'])} | {', '.join(m.split('.')[-1] for m in r['modules'])} | {names} |")
out.append("")
sd = os.path.join(V, "seeded")
res = json.load(open(os.path.join(sd, "RESULTS.json"))) if os.path.exists(os.path.join(sd, "RESULTS.json")) else {}
out += ["### 10.5 Seeded changes and which checks catch them (generated from seeded/)\n",
        "Independent sub-agents were given only a property's text and a scratch worktree and asked for changes that break",
        "the property while compiling and passing the test suite.  Every change kept here was confirmed in a scratch worktree",
        "(`tools_confirm.py`: demo exits 0 clean / non-zero patched, library imports, full suite still passes) and then run",
        "against the registered checks (`tools_seeded.py`, quick tier, seed 0, patch applied to a scratch worktree).\n",
        "| seeded change | what it does | needs | caught by | clause reported | history |", "|---|---|---|---|---|---|"]
for name in sorted(d for d in os.listdir(sd) if os.path.isdir(os.path.join(sd, d))):
    if name.startswith("refactor"):
        continue
    m = json.load(open(os.path.join(sd, name, "meta.json")))
    r = res.get(name, {})
    caught = [p for p, v in r.get("checks", {}).items() if v.get("caught")]
    clause = "; ".join(f"{v.get('clause')}" for p, v in r.get("checks", {}).items() if v.get("caught"))
    cell = lambda s: str(s).replace("|", "/").replace("\n", " ")[:260]
    out.append(f"| {name} | {cell(m.get('summary',''))} | {cell(m.get('needs',''))} | {', '.join(caught) or 'NOT CAUGHT'} | {cell(clause)} | {cell(m.get('history','caught by the first version of the check'))} |")
out.append("")
ref = [d for d in sorted(os.listdir(sd)) if d.startswith("refactor") and os.path.isdir(os.path.join(sd, d))]
if ref:
    out += ["### 10.6 Behaviour-preserving refactorings (must NOT raise an alarm; generated)\n",
            "| refactoring | what it does | numerically identical | checks run | alarm? |", "|---|---|---|---|---|"]
    for name in ref:
        m = json.load(open(os.path.join(sd, name, "meta.json")))
        r = res.get(name, {})
        alarms = [p for p, v in r.get("checks", {}).items() if v.get("exit") != 0]
        cell = lambda s: str(s).replace("|", "/").replace("\n", " ")[:300]
        out.append(f"| {name} | {cell(m.get('summary',''))} | {m.get('numerically_identical')} | {', '.join(r.get('checks', {}))} | {('ALARM: ' + ', '.join(alarms) + ' — ' + cell(m.get('verdict', 'see DESIGN 10.3b'))) if alarms else 'no'} |")
    out.append("")
text = "\n".join(out)
p = os.path.join(V, "DESIGN.md")
s = open(p).read()
B, E = "<!-- GENERATED:BEGIN -->", "<!-- GENERATED:END -->"
if B in s:
    s = s[:s.index(B)] + B + "\n" + text + "\n" + E + s[s.index(E) + len(E):]
else:
    s = s.rstrip("\n") + "\n\n" + B + "\n" + text + "\n" + E + "\n"
open(p, "w").write(s)
print("tables written:", len(reg), "properties,", len(res), "seeded results")
