#!/venv/bin/python
"""Mutation analysis of the correspondence checks (how tightly is the model tied to the code?).

For one property: enumerate small syntactic mutations (operator flips, min<->max, and<->or, where/cond
branch swaps, dropped negations, off-by-one constants, confusions between two variables that are both in
scope such as state/next_state, action/clipped_action, termination/truncation) inside the files the
property is anchored in, apply each one to a scratch worktree of /repo (never to /repo itself), run the
property's quick check against it and record whether it was flagged.  Survivors are either equivalent
mutants or gaps in the harness generators; they are triaged by hand (mutation/TRIAGE.md).

usage: tools_mutate.py PID [PID ...] [--n 12] [--seed 0] [--jobs 4] [--out mutation/RESULTS.json]
"""
from __future__ import annotations

import ast
import copy
import json
import os
import random
import re
import subprocess
import sys
import time
from concurrent.futures import ThreadPoolExecutor

V = os.path.dirname(os.path.abspath(__file__))
REPO = "/repo"
WTROOT = "/tmp/verif_mut"

SWAP_CALLS = {"minimum": "maximum", "maximum": "minimum", "logical_or": "logical_and",
              "logical_and": "logical_or", "all": "any", "any": "all", "min": "max", "max": "min",
              "floor": "ceil", "ceil": "floor", "greater": "greater_equal", "less": "less_equal",
              "argmax": "argmin", "cumsum": "cumprod"}
SWAP_NAMES = [("state", "next_state"), ("action", "clipped_action"), ("termination", "truncation"),
              ("terminal", "truncate"), ("done", "timeout"), ("dones", "timeouts"),
              ("observation", "next_observation"), ("low", "high"), ("policy", "target_policy"),
              ("qf1", "qf2"), ("rewards", "values"), ("key", "reset_key"), ("env_state", "next_env_state"),
              ("policy_state", "next_policy_state"), ("min_val", "max_val"), ("gamma", "gae_lambda")]
CMP = {ast.Lt: ast.LtE, ast.LtE: ast.Lt, ast.Gt: ast.GtE, ast.GtE: ast.Gt, ast.Eq: ast.NotEq,
       ast.NotEq: ast.Eq}
BIN = {ast.Add: ast.Sub, ast.Sub: ast.Add, ast.BitAnd: ast.BitOr, ast.BitOr: ast.BitAnd,
       ast.Mult: ast.Add, ast.Mod: ast.FloorDiv, ast.FloorDiv: ast.Mod}


def sh(*cmd, **kw):
    return subprocess.run(cmd, capture_output=True, text=True, **kw)


class Sites(ast.NodeVisitor):
    """Collect (description, lineno, mutate(tree_copy_node)) for every site; nodes are addressed by a
    running index so that the same site can be found again in a deep copy."""

    def __init__(self):
        self.sites = []
        self.idx = 0
        self.func_names = []
        self.skip = set()      # ids of nodes inside type annotations / decorators (never mutated)

    def visit(self, node):
        if not self.skip and isinstance(node, ast.Module):
            for n in ast.walk(node):
                anns = []
                if isinstance(n, ast.arg) and n.annotation is not None:
                    anns.append(n.annotation)
                if isinstance(n, ast.AnnAssign):
                    anns.append(n.annotation)
                if isinstance(n, (ast.FunctionDef, ast.AsyncFunctionDef)):
                    if n.returns is not None:
                        anns.append(n.returns)
                    anns.extend(n.decorator_list)
                for a in anns:
                    for m in ast.walk(a):
                        self.skip.add(id(m))
        return super().visit(node)

    def generic_visit(self, node):
        node._mut_idx = self.idx
        self.idx += 1
        if isinstance(node, (ast.FunctionDef, ast.AsyncFunctionDef)):
            names = {n.id for n in ast.walk(node) if isinstance(n, ast.Name)} | \
                    {a.arg for a in ast.walk(node) if isinstance(a, ast.arg)}
            self.func_names.append(names)
        ln = getattr(node, "lineno", None)
        if self.func_names and id(node) not in self.skip:
            if isinstance(node, ast.Compare) and len(node.ops) == 1 and type(node.ops[0]) in CMP:
                self.sites.append((f"cmp {type(node.ops[0]).__name__}->{CMP[type(node.ops[0])].__name__}", ln, node._mut_idx, "cmp"))
            if isinstance(node, ast.BinOp) and type(node.op) in BIN:
                self.sites.append((f"binop {type(node.op).__name__}->{BIN[type(node.op)].__name__}", ln, node._mut_idx, "bin"))
            if isinstance(node, ast.BoolOp):
                self.sites.append(("boolop and<->or", ln, node._mut_idx, "bool"))
            if isinstance(node, ast.UnaryOp) and isinstance(node.op, (ast.Invert, ast.Not, ast.USub)):
                self.sites.append((f"drop unary {type(node.op).__name__}", ln, node._mut_idx, "unary"))
            if isinstance(node, ast.Call):
                f = node.func
                nm = f.attr if isinstance(f, ast.Attribute) else (f.id if isinstance(f, ast.Name) else None)
                if nm in SWAP_CALLS:
                    self.sites.append((f"call {nm}->{SWAP_CALLS[nm]}", ln, node._mut_idx, "call"))
                if nm in ("where", "cond", "select") and len(node.args) >= 3:
                    self.sites.append((f"{nm}: swap branches", ln, node._mut_idx, "swap12"))
                if nm == "clip" and len(node.args) == 3:
                    self.sites.append(("clip: swap bounds", ln, node._mut_idx, "swap12"))
            if isinstance(node, ast.Constant) and isinstance(node.value, (int, float)) and not isinstance(node.value, bool):
                self.sites.append((f"const {node.value!r} perturbed", ln, node._mut_idx, "const"))
            if isinstance(node, ast.Name) and isinstance(node.ctx, ast.Load):
                for a, b in SWAP_NAMES:
                    for x, y in ((a, b), (b, a)):
                        if node.id == x and y in self.func_names[-1]:
                            self.sites.append((f"name {x}->{y}", ln, node._mut_idx, "name:" + y))
        super().generic_visit(node)
        if isinstance(node, (ast.FunctionDef, ast.AsyncFunctionDef)):
            self.func_names.pop()


def apply_mutation(tree, idx, kind):
    tree = copy.deepcopy(tree)
    # re-number identically
    counter = [0]

    class Find(ast.NodeVisitor):
        target = None

        def generic_visit(self, node):
            if counter[0] == idx:
                Find.target = node
            counter[0] += 1
            super().generic_visit(node)

    Find().visit(tree)
    n = Find.target
    if kind == "cmp":
        n.ops = [CMP[type(n.ops[0])]()]
    elif kind == "bin":
        n.op = BIN[type(n.op)]()
    elif kind == "bool":
        n.op = ast.Or() if isinstance(n.op, ast.And) else ast.And()
    elif kind == "unary":
        # replace the node by its operand: mutate in place into a no-op unary plus
        n.op = ast.UAdd() if isinstance(n.op, ast.USub) else n.op
        if isinstance(n.op, (ast.Invert, ast.Not)):
            operand = n.operand
            n.__class__ = operand.__class__
            n.__dict__.clear()
            n.__dict__.update(operand.__dict__)
    elif kind == "call":
        f = n.func
        if isinstance(f, ast.Attribute):
            f.attr = SWAP_CALLS[f.attr]
        else:
            f.id = SWAP_CALLS[f.id]
    elif kind == "swap12":
        n.args[1], n.args[2] = n.args[2], n.args[1]
    elif kind == "const":
        v = n.value
        n.value = (v + 1) if isinstance(v, int) else (v * 2.0 if v != 0 else 1.0)
    elif kind.startswith("name:"):
        n.id = kind[5:]
    ast.fix_missing_locations(tree)
    return tree


def line_ranges(prop):
    """priority line ranges per file from the property's anchors (mechanism / state 'where' fields)"""
    out = {}
    anchors = prop["anchors"]
    for item in (anchors.get("mechanism") or []) + (anchors.get("state") or []):
        w = item.get("where") or ""
        for m in re.finditer(r"(src/lerax/[\w/\.]+\.py):(\d+)(?:-(\d+))?", w):
            lo = int(m.group(2))
            hi = int(m.group(3) or lo + 25)
            out.setdefault(m.group(1), []).append((lo, hi))
    return out


def run_one(worker, pid, relpath, original_src, mutant_src, desc, ln):
    wt = os.path.join(WTROOT, f"w{worker}")
    path = os.path.join(wt, relpath)
    with open(path, "w") as fh:
        fh.write(mutant_src)
    env = dict(os.environ, PYTHONPATH=os.path.join(wt, "src"), VERIF_EVIDENCE_DIR=f"/tmp/verif_mut_ev/w{worker}",
               VERIF_SKIP_AUDIT="1", VERIF_SEED=os.environ.get("VERIF_SEED", "0"), JAX_PLATFORMS="cpu")
    t0 = time.time()
    res = {"property": pid, "file": relpath, "line": ln, "mutation": desc}
    try:
        imp = sh("/venv/bin/python", "-c", "import lerax, lerax.algorithm, lerax.env, lerax.wrapper, lerax.buffer, lerax.policy",
                 env=env, cwd=wt, timeout=300)
        if imp.returncode != 0:
            res.update(outcome="import-error")
            return res
        p = sh(os.path.join(V, "check"), pid, "--tier", "quick", env=env, cwd=V, timeout=2400)
        what = re.search(r"\[check\] \S+: (phi-fails-on-implementation|correspondence-broken): (.*)", p.stdout)
        if p.returncode == 1:
            res.update(outcome="caught", clause=what.group(2) if what else None,
                       no_failing_input="no-failing-input-found" in p.stdout)
        elif p.returncode == 0:
            res.update(outcome="SURVIVED")
        else:
            res.update(outcome="machinery-failure", tail=p.stdout[-400:])
    except subprocess.TimeoutExpired:
        res.update(outcome="timeout")
    finally:
        with open(path, "w") as fh:
            fh.write(original_src)
        res["wall_s"] = round(time.time() - t0, 1)
    return res


def main():
    args = [a for a in sys.argv[1:] if not a.startswith("--")]
    opt = dict(a[2:].split("=", 1) for a in sys.argv[1:] if a.startswith("--") and "=" in a)
    n_per = int(opt.get("n", 12))
    seed = int(opt.get("seed", 0))
    jobs = int(opt.get("jobs", 4))
    out_path = os.path.join(V, opt.get("out", "mutation/RESULTS.json"))
    os.makedirs(os.path.dirname(out_path), exist_ok=True)
    props = {json.loads(l)["id"]: json.loads(l) for l in open(os.path.join(V, "properties.jsonl"))}
    head = sh("git", "-C", REPO, "rev-parse", "HEAD").stdout.strip()
    os.makedirs(WTROOT, exist_ok=True)
    for w in range(jobs):
        wt = os.path.join(WTROOT, f"w{w}")
        if not os.path.isdir(wt):
            r = sh("git", "-C", REPO, "worktree", "add", "--detach", wt, head)
            assert r.returncode == 0, r.stderr
        sh("git", "-C", wt, "checkout", "--detach", head)
        sh("git", "-C", wt, "checkout", "--", ".")
    results = json.load(open(out_path)) if os.path.exists(out_path) else {"head": head, "mutants": []}
    done = {(m["property"], m["file"], m["line"], m["mutation"]) for m in results["mutants"]}
    work = []
    for pid in args:
        rng = random.Random(f"{seed}-{pid}")
        prop = props[pid]
        pri = line_ranges(prop)
        cands = []
        import glob
        rels = []
        for pat in prop["anchors"]["files"]:
            rels += sorted(os.path.relpath(f, REPO) for f in glob.glob(os.path.join(REPO, pat)))
        for rel in rels:
            full = os.path.join(REPO, rel)
            if not os.path.isfile(full) or rel.endswith("__init__.py"):
                continue
            src = open(full).read()
            tree = ast.parse(src)
            s = Sites()
            s.visit(tree)
            for desc, ln, idx, kind in s.sites:
                prio = any(lo <= (ln or 0) <= hi for lo, hi in pri.get(rel, []))
                cands.append((prio, rel, src, tree, desc, ln, idx, kind))
        rng.shuffle(cands)
        cands.sort(key=lambda c: not c[0])          # priority ranges first, otherwise random
        # at most 2 mutants per source line, so they spread over the anchored code
        per_line, chosen = {}, []
        for c in cands:
            k = (c[1], c[5])
            if per_line.get(k, 0) >= 2:
                continue
            per_line[k] = per_line.get(k, 0) + 1
            chosen.append(c)
            if len(chosen) >= n_per:
                break
        for prio, rel, src, tree, desc, ln, idx, kind in chosen:
            if (pid, rel, ln, desc) in done:
                continue
            try:
                msrc = ast.unparse(apply_mutation(tree, idx, kind))
            except Exception as exc:  # site not mutable after all
                continue
            work.append((pid, rel, src, msrc, desc, ln))
    print(f"{len(work)} mutants to run with {jobs} workers", flush=True)
    free = list(range(jobs))

    def task(item):
        w = free.pop()
        try:
            return run_one(w, *item)
        finally:
            free.append(w)

    with ThreadPoolExecutor(max_workers=jobs) as ex:
        for res in ex.map(task, work):
            results["mutants"].append(res)
            print(json.dumps(res)[:300], flush=True)
            json.dump(results, open(out_path, "w"), indent=1)
    by = {}
    for m in results["mutants"]:
        by.setdefault(m["property"], {}).setdefault(m["outcome"], 0)
        by[m["property"]][m["outcome"]] += 1
    results["summary"] = by
    json.dump(results, open(out_path, "w"), indent=1)
    print(json.dumps(by, indent=1))
    for w in range(jobs):
        sh("git", "-C", REPO, "worktree", "remove", "--force", os.path.join(WTROOT, f"w{w}"))


if __name__ == "__main__":
    main()
